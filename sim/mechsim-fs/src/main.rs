fn main() {
  let r = mech::read_mech_source_file(std::path::Path::new("/nonexistent.mec"));
  println!("{:?}", r.is_err());
}
