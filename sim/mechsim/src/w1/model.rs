//! W1 reference store: name -> (mutability, value) with copy semantics. Trivial inside.
//!
//! `apply` answers, for one operation on the current store, what the properties C04/C05 demand:
//! must it succeed, must it fail, or is either acceptable (a combination the statement of the
//! properties does not pin down, or one that Mech may legitimately not implement) — and what the
//! store looks like afterwards in each case. It never looks at the system.

use super::ops::*;
use crate::sv::*;
use std::collections::BTreeMap;

#[derive(Clone, Debug, PartialEq)]
pub struct Binding {
  pub mutable: bool,
  pub v: SV,
  /// how the binding came to be (for root-cause tags in violation signatures)
  pub origin: String,
  /// the variable the defining expression read from, if it was a bare variable or an access into one
  pub src: Option<String>,
}
pub type MStore = BTreeMap<String, Binding>;

#[derive(Clone, Debug, PartialEq)]
pub enum Must { Ok, Err, Either }

#[derive(Clone, Debug, PartialEq)]
pub enum After {
  /// store unchanged
  Same,
  /// store after success
  Store(MStore),
  /// success leaves every binding but `name` as in the given store; `name`'s value is whatever
  /// the system produced (adopted by the model afterwards). Used where the properties do not fix
  /// the resulting value.
  Unknown(String, MStore),
}

#[derive(Clone, Debug)]
pub struct Verdict {
  pub must: Must,
  /// acceptable error kind names when the failure is one of the three named rejections
  pub err_names: Vec<&'static str>,
  /// expected return value on success (None: not specified by C04/C05, not compared)
  pub ret: Option<SV>,
  /// compare `ret` element-wise only (shape conventions of indexing reads belong to C03)
  pub ret_flat: bool,
  pub after: After,
  /// why an error is expected / possible (fault kind label), if so
  pub fault: Option<String>,
  /// combination key (baseline, reach)
  pub combo: String,
  /// 0-based column-major positions the statement addresses in its target (indexed forms)
  pub addressed: Vec<usize>,
  /// the resulting values are not pinned down (After::Unknown), but the frame is: only the
  /// addressed positions of the target may change, its shape and element kind may not
  pub frame_only: bool,
}

pub enum Ev { Val(SV), Fail(String), Unsure }

fn int_op(k: NK, a: i128, op: Bop, b: i128) -> Result<i128, String> {
  let (lo, hi) = k.int_range().unwrap();
  let r = match op {
    Bop::Add => a.checked_add(b),
    Bop::Sub => a.checked_sub(b),
    Bop::Mul => a.checked_mul(b),
    Bop::Div => { if b == 0 { return Err("div-by-zero".into()); } a.checked_div(b) }
    _ => return Err("kind".into()),
  };
  match r {
    Some(x) if x >= lo && x <= hi => Ok(x),
    _ => Err("overflow".into()),
  }
}

fn scalar_op(a: &SV, op: Bop, b: &SV) -> Ev {
  match (a, b) {
    (SV::F64(x), SV::F64(y)) => {
      let (x, y) = (f64::from_bits(*x), f64::from_bits(*y));
      match op {
        Bop::Add => Ev::Val(SV::f64(x + y)),
        Bop::Sub => Ev::Val(SV::f64(x - y)),
        Bop::Mul => Ev::Val(SV::f64(x * y)),
        Bop::Div => Ev::Val(SV::f64(x / y)),
        _ => Ev::Unsure,
      }
    }
    (SV::F32(x), SV::F32(y)) => {
      let (x, y) = (f32::from_bits(*x), f32::from_bits(*y));
      match op {
        Bop::Add => Ev::Val(SV::F32(canon_f32(x + y))),
        Bop::Sub => Ev::Val(SV::F32(canon_f32(x - y))),
        Bop::Mul => Ev::Val(SV::F32(canon_f32(x * y))),
        Bop::Div => Ev::Val(SV::F32(canon_f32(x / y))),
        _ => Ev::Unsure,
      }
    }
    (SV::Int(k1, x), SV::Int(k2, y)) if k1 == k2 => match op {
      Bop::Add | Bop::Sub | Bop::Mul | Bop::Div => match int_op(*k1, *x, op, *y) {
        Ok(v) => Ev::Val(SV::Int(*k1, v)),
        Err(e) => Ev::Fail(e),
      },
      _ => Ev::Unsure,
    },
    (SV::Str(x), SV::Str(y)) if op == Bop::Add => Ev::Val(SV::Str(format!("{}{}", x, y))),
    (SV::Bool(x), SV::Bool(y)) => match op {
      Bop::And => Ev::Val(SV::Bool(*x && *y)),
      Bop::Or => Ev::Val(SV::Bool(*x || *y)),
      _ => Ev::Unsure,
    },
    // different numeric kinds, or number vs string: no implicit conversion in formulas
    (SV::F64(_), SV::Int(..)) | (SV::Int(..), SV::F64(_)) | (SV::Int(..), SV::Int(..))
    | (SV::F32(_), SV::F64(_)) | (SV::F64(_), SV::F32(_)) | (SV::F32(_), SV::Int(..)) | (SV::Int(..), SV::F32(_))
      if matches!(op, Bop::Add | Bop::Sub | Bop::Mul | Bop::Div) => Ev::Fail("kind-mismatch".into()),
    (SV::F64(_), SV::Str(_)) | (SV::Str(_), SV::F64(_)) | (SV::Int(..), SV::Str(_)) | (SV::Str(_), SV::Int(..))
      if matches!(op, Bop::Add | Bop::Sub | Bop::Mul | Bop::Div) => Ev::Fail("kind-mismatch".into()),
    _ => Ev::Unsure,
  }
}

pub fn binop(a: &SV, op: Bop, b: &SV) -> Ev {
  match (a, b) {
    (SV::Mat(ek, r, c, d), s) if s.is_scalar() => {
      let mut out = vec![];
      for x in d {
        match scalar_op(x, op, s) { Ev::Val(v) => out.push(v), Ev::Fail(e) => return Ev::Fail(e), Ev::Unsure => return Ev::Unsure }
      }
      let ek2 = out.first().map(|x| x.kind_tag()).unwrap_or(ek.clone());
      Ev::Val(SV::Mat(ek2, *r, *c, out))
    }
    (s, SV::Mat(ek, r, c, d)) if s.is_scalar() => {
      let mut out = vec![];
      for x in d {
        match scalar_op(s, op, x) { Ev::Val(v) => out.push(v), Ev::Fail(e) => return Ev::Fail(e), Ev::Unsure => return Ev::Unsure }
      }
      let ek2 = out.first().map(|x| x.kind_tag()).unwrap_or(ek.clone());
      Ev::Val(SV::Mat(ek2, *r, *c, out))
    }
    (SV::Mat(ek1, r1, c1, d1), SV::Mat(ek2, r2, c2, d2)) => {
      if (r1, c1) != (r2, c2) || ek1 != ek2 || !matches!(op, Bop::Add | Bop::Sub) { return Ev::Unsure; }
      let mut out = vec![];
      for (x, y) in d1.iter().zip(d2.iter()) {
        match scalar_op(x, op, y) { Ev::Val(v) => out.push(v), Ev::Fail(e) => return Ev::Fail(e), Ev::Unsure => return Ev::Unsure }
      }
      Ev::Val(SV::Mat(ek1.clone(), *r1, *c1, out))
    }
    (a, b) if a.is_scalar() && b.is_scalar() => scalar_op(a, op, b),
    _ => Ev::Unsure,
  }
}

/// Positions addressed by a subscript in an r×c matrix: Ok(0-based column-major positions in
/// assignment order) | Err(Some(k)) out of range at the k-th (1-based) generated position |
/// Err(None) the model does not define this subscript.
pub fn resolve(sub: &Sub, r: usize, c: usize, store: &MStore) -> Result<Vec<usize>, Option<usize>> {
  fn one(ix: &Ix, n: usize, store: &MStore) -> Result<Vec<usize>, Option<usize>> {
    let chk = |list: Vec<i64>| -> Result<Vec<usize>, Option<usize>> {
      let mut out = vec![];
      for (k, i) in list.iter().enumerate() {
        if *i < 1 || *i as usize > n { return Err(Some(k + 1)); }
        out.push((*i - 1) as usize);
      }
      Ok(out)
    };
    match ix {
      Ix::S(i) => chk(vec![*i]),
      Ix::V(v) => chk(v.clone()),
      Ix::R(a, b) => { if a > b { return Err(None); } chk((*a..=*b).collect()) }
      Ix::RX(a, b) => { if a >= b { return Err(None); } chk((*a..*b).collect()) }
      Ix::All => Ok((0..n).collect()),
      Ix::M(m) => { if m.len() != n { return Err(None); } Ok(m.iter().enumerate().filter(|(_, b)| **b).map(|(i, _)| i).collect()) }
      Ix::Var(y) => match store.get(y).map(|b| &b.v) {
        Some(SV::F64(b)) => { let x = f64::from_bits(*b); if x == x.trunc() { chk(vec![x as i64]) } else { Err(None) } }
        Some(SV::Mat(ek, yr, yc, d)) if ek == "f64" && (*yr == 1 || *yc == 1) => {
          let mut l = vec![];
          for e in d { let x = e.as_f64().unwrap(); if x != x.trunc() { return Err(None); } l.push(x as i64); }
          chk(l)
        }
        Some(SV::Mat(ek, yr, yc, d)) if ek == "bool" && (*yr == 1 || *yc == 1) => {
          if d.len() != n { return Err(None); }
          Ok(d.iter().enumerate().filter(|(_, b)| matches!(b, SV::Bool(true))).map(|(i, _)| i).collect())
        }
        _ => Err(None),
      },
    }
  }
  match sub {
    Sub::One(ix) => one(ix, r * c, store),
    Sub::Two(i, j) => {
      let rows = one(i, r, store)?;
      let cols = match one(j, c, store) { Ok(v) => v, Err(Some(k)) => return Err(Some(rows.len().max(1) * (k - 1) + 1)), Err(None) => return Err(None) };
      let mut out = vec![];
      for cc in &cols { for rr in &rows { out.push(cc * r + rr); } }
      Ok(out)
    }
  }
}

/// Storage class of an r×c matrix: Mech keeps small shapes in fixed-size nalgebra types and the
/// rest in dynamic ones, and every (kind, storage class, …) combination has its own generated kernel
/// (or none), so the supported-combination baseline is keyed by it.
pub fn shape_class(r: usize, c: usize) -> String {
  match (r, c) {
    (1, 1) => "m1".into(),
    (1, n) if n <= 4 => format!("r{}", n), (1, _) => "rd".into(),
    (n, 1) if n <= 4 => format!("v{}", n), (_, 1) => "vd".into(),
    (2, 2) => "m2".into(), (3, 3) => "m3".into(), (4, 4) => "m4".into(), (2, 3) => "m2x3".into(), (3, 2) => "m3x2".into(),
    _ => "md".into(),
  }
}
fn len_class(n: usize) -> String { if n <= 4 { n.to_string() } else { "n".into() } }

/// Index form with a length class: the evaluated index is itself a vector whose storage class
/// depends on its length (1, 2, 3, 4, more), and masks on the length of the mask.
pub fn form_card(sub: &Sub, r: usize, c: usize, s: &MStore) -> String {
  let one = |ix: &Ix, n: usize| -> String {
    let base = ix.form().to_string();
    match ix {
      Ix::S(_) | Ix::All => base,
      Ix::M(m) => format!("{}{}", base, len_class(m.len())),
      Ix::Var(y) => match s.get(y).map(|b| &b.v) {
        Some(SV::Mat(k, _, _, d)) if k == "bool" => format!("{}m{}", base, len_class(d.len())),
        Some(SV::Mat(_, _, _, d)) => format!("{}{}", base, len_class(d.len())),
        _ => format!("{}s", base),
      },
      _ => match resolve(&Sub::One(ix.clone()), n, 1, s) { Ok(p) => format!("{}{}", base, len_class(p.len())), _ => base },
    }
  };
  let shape = shape_class(r, c);
  match sub { Sub::One(a) => format!("{}:{}", shape, one(a, r * c)), Sub::Two(a, b) => format!("{}:{},{}", shape, one(a, r), one(b, c)) }
}

pub fn eval(e: &Expr, s: &MStore) -> Ev {
  let var = |n: &str| -> Result<SV, Ev> { s.get(n).map(|b| b.v.clone()).ok_or(Ev::Fail("undefined-var".into())) };
  match e {
    // a matrix literal of a signed integer kind has no spelling the pinned Mech accepts
    // (`[1<i64> 2<i64>]` is rejected by concatenation), so the model does not predict it
    Expr::Lit(SV::Mat(ek, ..)) if ek == "f32" || NK::from_name(ek).map(|k| k.is_signed()).unwrap_or(false) => Ev::Unsure,
    Expr::Lit(v) => Ev::Val(v.clone()),
    Expr::Var(n) => match var(n) { Ok(v) => Ev::Val(v), Err(e) => e },
    Expr::VarOp(n, op, lit) => match var(n) { Ok(v) => binop(&v, *op, lit), Err(e) => e },
    Expr::VarVar(a, op, b) => match (var(a), var(b)) { (Ok(x), Ok(y)) => binop(&x, *op, &y), (Err(e), _) | (_, Err(e)) => e },
    Expr::LitOp(a, op, b) => binop(a, *op, b),
    Expr::VarIdx(n, sub) => match var(n) {
      Ok(SV::Mat(ek, r, c, d)) => match resolve(sub, r, c, s) {
        Ok(pos) => {
          let scalar = matches!(sub, Sub::One(Ix::S(_)) | Sub::Two(Ix::S(_), Ix::S(_)));
          if scalar { Ev::Val(d[pos[0]].clone()) }
          else if pos.is_empty() { Ev::Unsure }
          // shape convention of non-scalar reads is C03's business: report as a column, compared flat
          else { Ev::Val(SV::Mat(ek, pos.len(), 1, pos.iter().map(|p| d[*p].clone()).collect())) }
        }
        Err(Some(_)) => Ev::Fail("index-oob".into()),
        Err(None) => Ev::Unsure,
      },
      Ok(_) => Ev::Unsure,
      Err(e) => e,
    },
    Expr::Field(n, f) => match var(n) {
      Ok(SV::Record(fields)) => match fields.iter().find(|(name, _, _)| name == f) { Some((_, _, v)) => Ev::Val(v.clone()), None => Ev::Fail("no-such-field".into()) },
      // what a column READ returns after rows were appended is evaluation (tables), not isolation: on the
      // pinned tree `~q := |a<f64> b<f64>| 100 2 |; q += {a: 2, b: 10}; z := q.b` yields [2 0] while q
      // itself holds [2 10] (DESIGN 12.10) — not predicted; what the definition leaves behind is checked
      Ok(SV::Table(..)) if s.get(n).map(|b| b.origin.contains("+appended")).unwrap_or(false) => Ev::Unsure,
      Ok(SV::Table(rows, cols)) => match cols.iter().find(|(name, _, _)| name == f) {
        Some((_, k, d)) => Ev::Val(SV::Mat(k.clone(), rows, 1, d.clone())),
        None => Ev::Fail("no-such-column".into()),
      },
      Ok(_) => Ev::Unsure,
      Err(e) => e,
    },
    Expr::Call(f, args) => {
      let mut vals = vec![];
      for a in args { match eval(a, s) { Ev::Val(v) => vals.push(v), other => return other } }
      if f == "idf" {
        // a match-arm function whose only arm hands back its argument
        return match vals.as_slice() { [v @ SV::F64(_)] => Ev::Val(v.clone()), [_] => Ev::Unsure, _ => Ev::Fail("function-arity".into()) };
      }
      if f == "mutm" {
        // writes 99 into element 1 of a mutable copy of its f64 matrix argument and returns the copy
        return match vals.as_slice() {
          [SV::Mat(ek, r, c, d)] if ek == "f64" && !d.is_empty() => { let mut d2 = d.clone(); d2[0] = SV::f64(99.0); Ev::Val(SV::Mat(ek.clone(), *r, *c, d2)) }
          _ => Ev::Unsure,
        };
      }
      let all_f64 = vals.iter().all(|v| matches!(v, SV::F64(_)));
      let arity = match f.as_str() { "inc" | "bad" | "shadow" | "mut" | "pick" | "ovf" => 1, "addtwo" => 2, _ => return Ev::Unsure };
      if vals.len() != arity { return Ev::Fail("function-arity".into()); }
      if vals.iter().any(|v| matches!(v, SV::Str(_) | SV::Bool(_))) { return Ev::Fail("function-arg-kind".into()); }
      if !all_f64 { return Ev::Unsure; }
      let x = |i: usize| vals[i].as_f64().unwrap();
      match f.as_str() {
        "inc" | "mut" => Ev::Val(SV::f64(x(0) + 1.0)),
        "addtwo" => Ev::Val(SV::f64((x(0) + 0.0) + x(1))), // the body's own order: p := x + 0; z := p + y (matters for -0.0)
        // binds its input and a local, then fails on an undefined variable
        "bad" => Ev::Fail("function-body-fails".into()),
        // bind their input and two locals, then panic (out-of-range read, u8 overflow)
        "pick" | "ovf" => Ev::Fail("function-body-panics".into()),
        // its locals are named like the session's variables: x, y, z, p
        "shadow" => Ev::Val(SV::f64((x(0) * 2.0 + 1.0) - 3.0)),
        _ => Ev::Unsure,
      }
    }
    Expr::Built(kind, els) => {
      let mut vals = vec![];
      for e in els { match e { BuiltElem::Lit(v) => vals.push(v.clone()), BuiltElem::Var(n) => match var(n) { Ok(v) => vals.push(v.clone()), Err(e) => return e } } }
      match kind.as_str() {
        "tuple" => Ev::Val(SV::Tuple(vals)),
        "nested-tuple" => { if vals.len() < 3 { return Ev::Unsure; } let inner = SV::Tuple(vec![vals[0].clone(), vals[1].clone()]); let mut outer = vec![inner]; outer.extend(vals[2..].iter().cloned()); Ev::Val(SV::Tuple(outer)) }
        "set" => {
          if vals.is_empty() || !vals.iter().all(|v| matches!(v, SV::F64(_))) { return Ev::Unsure; }
          // whether NaN equals NaN as a set element (or -0.0 equals 0.0) is set algebra (C14), not isolation: not predicted
          if vals.iter().any(|v| matches!(v, SV::F64(b) if f64::from_bits(*b).is_nan() || (f64::from_bits(*b) == 0.0 && f64::from_bits(*b).is_sign_negative()))) { return Ev::Unsure; }
          let mut els: Vec<SV> = vec![]; for v in &vals { if !els.contains(v) { els.push(v.clone()); } }
          els.sort();
          Ev::Val(SV::Set("f64".into(), els))
        }
        "match-id" => match vals.first() { Some(v) => Ev::Val(v.clone()), None => Ev::Unsure },
        "record" => if vals.iter().all(|v| v.is_scalar()) { Ev::Val(SV::Record(vals.iter().enumerate().map(|(i, v)| (["a", "b", "c", "d"][i % 4].to_string(), v.kind_tag(), v.clone())).collect())) } else { Ev::Unsure },
        "table" => {
          if vals.len() < 2 || vals.len() % 2 != 0 || !vals.iter().all(|v| matches!(v, SV::F64(_))) { return Ev::Unsure; }
          let rows = vals.len() / 2;
          let col = |j: usize| -> Vec<SV> { (0..rows).map(|i| vals[i * 2 + j].clone()).collect() };
          Ev::Val(SV::Table(rows, vec![("a".to_string(), "f64".to_string(), col(0)), ("b".to_string(), "f64".to_string(), col(1))]))
        }
        "map" => {
          if vals.is_empty() || !vals.iter().all(|v| v.is_scalar() && v.kind_tag() == vals[0].kind_tag()) { return Ev::Unsure; }
          let mut kv: Vec<(SV, SV)> = vals.iter().enumerate().map(|(i, v)| (SV::Str(["a", "b", "c", "d"][i % 4].to_string()), v.clone())).collect();
          kv.sort();
          Ev::Val(SV::Map(kv))
        }
        _ => {
          // `[a]` with a matrix variable is that matrix; `[a b …]` of f64 scalars / row vectors is their row concatenation
          match vals.as_slice() {
            [m @ SV::Mat(..)] => Ev::Val(m.clone()),
            many if many.len() >= 2 => {
              let mut out = vec![];
              for v in many { match v { SV::F64(_) => out.push(v.clone()), SV::Mat(ek, 1, _, d) if ek == "f64" => out.extend(d.iter().cloned()), _ => return Ev::Unsure } }
              let n = out.len();
              Ev::Val(SV::Mat("f64".into(), 1, n, out))
            }
            _ => Ev::Unsure,
          }
        }
      }
    }
    Expr::MapGet(n, k) => match var(n) {
      Ok(SV::Map(kv)) => match kv.iter().find(|(kk, _)| kk == k) { Some((_, v)) => Ev::Val(v.clone()), None => Ev::Fail("no-such-key".into()) },
      Ok(_) => Ev::Unsure,
      Err(e) => e,
    },
    Expr::TupElem(n, k) => match var(n) {
      Ok(SV::Tuple(el)) => if *k >= 1 && *k <= el.len() { Ev::Val(el[*k - 1].clone()) } else { Ev::Fail("tuple-index-oob".into()) },
      Ok(_) => Ev::Unsure,
      Err(e) => e,
    },
  }
}

fn class_of(v: &SV) -> String {
  match v {
    SV::Mat(ek, r, c, _) => format!("mat:{}:{}", ek, shape_class(*r, *c)),
    SV::Record(_) => "record".into(),
    SV::Table(..) => "table".into(),
    SV::Tuple(_) => "tuple".into(),
    SV::Set(..) => "set".into(),
    SV::Map(_) => "map".into(),
    x => format!("scalar:{}", x.kind_tag()),
  }
}
fn src_form(v: &SV) -> String {
  match v {
    SV::Mat(ek, r, c, _) => format!("{}:{}", shape_class(*r, *c), ek),
    x => class_of(x),
  }
}

/// Convert a value under a kind annotation, for the cases the model is sure about.
fn annotate(v: &SV, annot: &str) -> Option<SV> {
  fn scalar(v: &SV, k: &str) -> Option<SV> {
    if v.kind_tag() == k { return Some(v.clone()); }
    let nk = NK::from_name(k)?;
    match v {
      SV::F64(b) => {
        let x = f64::from_bits(*b);
        if nk == NK::F64 { return Some(v.clone()); }
        if nk == NK::F32 { return if ((x as f32) as f64) == x { Some(SV::F32(canon_f32(x as f32))) } else { None }; }
        if nk.is_float() { return None; }
        let (lo, hi) = nk.int_range()?;
        if x == x.trunc() && x >= lo as f64 && x <= hi as f64 && x.abs() < 1e15 { Some(SV::Int(nk, x as i128)) } else { None }
      }
      SV::Int(_, x) => {
        if nk == NK::F64 { return if x.abs() < (1i128 << 52) { Some(SV::f64(*x as f64)) } else { None }; }
        if nk.is_float() { return None; }
        let (lo, hi) = nk.int_range()?;
        if *x >= lo && *x <= hi { Some(SV::Int(nk, *x)) } else { None }
      }
      _ => None,
    }
  }
  if let Some(rest) = annot.strip_prefix('[') {
    // "[k]" (no dimensions: the shape stays) or "[k]:r,c"
    if let Some(k) = rest.strip_suffix(']') {
      return match v {
        SV::Mat(_, r0, c0, d) => { let mut out = vec![]; for e in d { out.push(scalar(e, k)?); } Some(SV::Mat(k.to_string(), *r0, *c0, out)) }
        _ => None,
      };
    }
    let (k, dims) = rest.split_once("]:")?;
    let (r, c) = dims.split_once(',')?;
    let (r, c): (usize, usize) = (r.parse().ok()?, c.parse().ok()?);
    match v {
      SV::Mat(_, r0, c0, d) => {
        if r0 * c0 != r * c { return None; }
        let mut out = vec![];
        for e in d { out.push(scalar(e, k)?); }
        Some(SV::Mat(k.to_string(), r, c, out))
      }
      s if s.is_scalar() => { let e = scalar(s, k)?; Some(SV::Mat(k.to_string(), r, c, vec![e; r * c])) }
      _ => None,
    }
  } else {
    if !v.is_scalar() { return None; }
    scalar(v, annot)
  }
}

fn numeric_tag(k: &str) -> bool { NK::from_name(k).is_some() }

pub struct Model {
  pub store: MStore,
  /// combination keys that must be accepted (baseline from the pinned tree); others may be rejected
  pub supported: std::sync::Arc<std::collections::BTreeSet<String>>,
}

impl Model {
  pub fn new(supported: std::sync::Arc<std::collections::BTreeSet<String>>) -> Model {
    Model { store: MStore::new(), supported }
  }

  fn verdict(&self, must: Must, after: After, combo: String) -> Verdict {
    let must = if must == Must::Ok && !self.supported.contains(&combo) { Must::Either } else { must };
    Verdict { must, err_names: vec![], ret: None, ret_flat: false, after, fault: None, combo, addressed: vec![], frame_only: false }
  }
  fn must_err(&self, fault: &str, combo: String) -> Verdict {
    Verdict { must: Must::Err, err_names: vec![], ret: None, ret_flat: false, after: After::Same, fault: Some(fault.to_string()), combo, addressed: vec![], frame_only: false }
  }
  fn either_unknown(&self, name: &str, fault: &str, combo: String) -> Verdict {
    Verdict { must: Must::Either, err_names: vec![], ret: None, ret_flat: false, after: After::Unknown(name.to_string(), self.store.clone()), fault: Some(fault.to_string()), combo, addressed: vec![], frame_only: false }
  }
  fn either_same(&self, fault: &str, combo: String) -> Verdict {
    Verdict { must: Must::Either, err_names: vec![], ret: None, ret_flat: false, after: After::Same, fault: Some(fault.to_string()), combo, addressed: vec![], frame_only: false }
  }

  /// Checks shared by every writing statement, in the order the properties imply: the three
  /// named rejections. Returns Some(verdict) if the statement must be rejected for that reason.
  fn writable(&self, name: &str, combo: &str) -> Option<Verdict> {
    match self.store.get(name) {
      None => { let mut v = self.must_err("f2-undefined-target", combo.to_string()); v.err_names = vec!["UndefinedVariable"]; Some(v) }
      Some(b) if !b.mutable => { let mut v = self.must_err("f3-immutable-target", combo.to_string()); v.err_names = vec!["NotMutable"]; Some(v) }
      _ => None,
    }
  }

  pub fn apply(&self, op: &Op) -> Verdict {
    let mut v = self.apply_inner(op);
    // A container that was written with variables among its elements keeps reference-kinded
    // elements on the pinned tree, and the selector assignments into it are dispatched (and
    // rejected) differently from those into a container of literals; C05 does not ask for their
    // acceptance, so it is not demanded — what an accepted or rejected statement leaves behind is
    // checked as always.
    if v.must == Must::Ok {
      if let Some(t) = op.target() {
        // (also for a copy of such a container: follow the derivation links)
        let mut cur = Some(t.to_string()); let mut built = false;
        for _ in 0..8 { match cur.as_ref().and_then(|n| self.store.get(n)) { Some(b) => { if b.origin.contains("<-built-") { built = true; break; } cur = b.src.clone(); } None => break } }
        if built && !matches!(op, Op::Define { .. }) { v.must = Must::Either; }
      }
    }
    v
  }

  fn apply_inner(&self, op: &Op) -> Verdict {
    let s = &self.store;
    match op {
      Op::Define { name, mutable, annot, e } => {
        let combo0 = format!("{}|{}", op.kind(), e.form());
        if s.contains_key(name) {
          let mut v = self.must_err("f1-redefine", combo0);
          v.err_names = vec!["VariableAlreadyDefined"];
          return v;
        }
        match eval(e, s) {
          Ev::Fail(f) => { let mut v = self.must_err(&format!("f4-source-fails:{}", f), combo0); if f == "undefined-var" { v.err_names = vec!["UndefinedVariable"]; } v }
          Ev::Unsure => {
            // a value the model does not predict: if the statement is accepted the name is defined (with
            // the declared mutability) and holds whatever the system produced; nothing else may change
            let mut st = s.clone();
            st.insert(name.clone(), Binding { mutable: *mutable, v: SV::Other("?".into()), origin: format!("{}<-unsure", op.kind()), src: None });
            let mut v = self.either_unknown(name, "unsure-source", combo0);
            v.after = After::Unknown(name.clone(), st);
            v
          }
          Ev::Val(val) => {
            let combo = format!("{}|{}|{}", combo0, class_of(&val), annot.clone().unwrap_or_default());
            let val2 = match annot { None => Some(val.clone()), Some(a) => annotate(&val, a) };
            match val2 {
              None => {
                // an annotation the model cannot follow (or that cannot convert): f7
                let mut st = s.clone();
                st.insert(name.clone(), Binding { mutable: *mutable, v: SV::Empty, origin: format!("define-annot<-{}", e.form()), src: e.vars().first().map(|s| s.to_string()) });
                Verdict { must: Must::Either, err_names: vec![], ret: None, ret_flat: false, after: After::Unknown(name.clone(), st), fault: Some("f7-annotation".into()), combo, addressed: vec![], frame_only: false }
              }
              Some(v2) => {
                let mut st = s.clone();
                // (a copy of a table that rows were appended to is such a table)
                let appended = matches!(e, Expr::Var(src) if s.get(src).map(|b| b.origin.contains("+appended")).unwrap_or(false));
                st.insert(name.clone(), Binding { mutable: *mutable, v: v2.clone(), origin: format!("define<-{}{}", e.form(), if appended { "+appended" } else { "" }), src: e.vars().first().map(|s| s.to_string()) });
                let mut v = self.verdict(Must::Ok, After::Store(st), combo);
                v.ret = Some(v2);
                v
              }
            }
          }
        }
      }

      Op::Assign { name, e } => {
        let combo0 = format!("assign|{}", e.form());
        let val = match eval(e, s) {
          Ev::Fail(f) => { let mut v = self.must_err(&format!("f4-source-fails:{}", f), combo0); if f == "undefined-var" { v.err_names = vec!["UndefinedVariable"]; } return v; }
          Ev::Unsure => return if s.get(name).map(|b| b.mutable).unwrap_or(false) { self.either_unknown(name, "unsure-source", combo0) } else { self.either_same("unsure-source", combo0) },
          Ev::Val(v) => v,
        };
        if let Some(v) = self.writable(name, &combo0) { return v; }
        let cur = &s[name];
        let combo = format!("assign|{}<-{}:{}", class_of(&cur.v), e.form(), src_form(&val));
        let same_kind = match (&cur.v, &val) {
          (SV::Mat(k1, ..), SV::Mat(k2, ..)) => k1 == k2,
          (a, b) => a.kind_tag() == b.kind_tag(),
        };
        if !same_kind { return self.either_unknown(name, "f6-source-kind", combo); }
        let mut st = s.clone();
        st.get_mut(name).unwrap().v = val.clone();
        let same_shape = match (&cur.v, &val) { (SV::Mat(_, r1, c1, _), SV::Mat(_, r2, c2, _)) => (r1, c1) == (r2, c2), _ => true };
        if cur.v.is_scalar() || (cur.v.is_matrix() && same_shape) {
          self.verdict(Must::Ok, After::Store(st), combo)
        } else {
          // whole-value assignment of records/tuples/sets/tables, or a matrix of another shape
          let mut v = self.verdict(Must::Either, After::Store(st), combo);
          v.fault = Some("unsupported-whole-assign".into());
          v
        }
      }

      Op::IdxAssign { name, sub, e } => {
        let combo0 = format!("idx-assign|{}|{}", sub.form(), e.form());
        let val = match eval(e, s) {
          Ev::Fail(f) => { let mut v = self.must_err(&format!("f4-source-fails:{}", f), combo0); if f == "undefined-var" { v.err_names = vec!["UndefinedVariable"]; } return v; }
          Ev::Unsure => return if s.get(name).map(|b| b.mutable).unwrap_or(false) { self.either_unknown(name, "unsure-source", combo0) } else { self.either_same("unsure-source", combo0) },
          Ev::Val(v) => v,
        };
        if let Some(v) = self.writable(name, &combo0) { return v; }
        let cur = &s[name];
        let (ek, r, c, d) = match &cur.v { SV::Mat(ek, r, c, d) => (ek, *r, *c, d), _ => return self.either_unknown(name, "index-into-non-matrix", format!("idx-assign|{}", class_of(&cur.v))) };
        let combo = format!("idx-assign|mat:{}|{}|{}:{}", ek, form_card(sub, r, c, s), e.form(), src_form(&val));
        let pos = match resolve(sub, r, c, s) {
          Ok(p) => p,
          Err(Some(k)) => return self.must_err(&format!("f5-index-oob@{}", k.min(4)), combo),
          Err(None) => return self.either_unknown(name, "unsure-subscript", combo),
        };
        if pos.is_empty() { return self.either_same("empty-selection", combo); }
        let mut nd = d.clone();
        match &val {
          sv if sv.is_scalar() => {
            if sv.kind_tag() != *ek {
              let both_numeric = numeric_tag(&sv.kind_tag()) && numeric_tag(ek);
              return if both_numeric { let mut v = self.either_unknown(name, "f6-source-kind", combo); v.addressed = pos; v } else { self.must_err("f6-source-kind", combo) };
            }
            for p in &pos { nd[*p] = sv.clone(); }
          }
          SV::Mat(sk, sr, sc, sd) => {
            let vector = *sr == 1 || *sc == 1;
            let one = matches!(sub, Sub::One(_));
            if sk != ek {
              let both_numeric = numeric_tag(sk) && numeric_tag(ek);
              return if both_numeric { self.either_unknown(name, "f6-source-kind", combo) } else { self.must_err("f6-source-kind", combo) };
            }
            let mut distinct = pos.clone(); distinct.sort(); distinct.dedup();
            if vector && one && sd.len() < pos.len() {
              // too few source elements: must be rejected (index vectors), masks follow Mech's positional reading
              return if matches!(sub, Sub::One(Ix::V(_)) | Sub::One(Ix::R(..)) | Sub::One(Ix::RX(..)) | Sub::One(Ix::All)) { self.must_err("f6-vector-source-too-short", combo) } else { self.either_unknown(name, "f6-vector-source-too-short", combo) };
            }
            if vector && one && sd.len() != pos.len() { return self.either_unknown(name, "vector-source-length-mismatch", combo); }
            if !vector || !one || distinct.len() != pos.len() {
              // which source element lands where is not stated by C04 for these forms; that nothing
              // but the addressed elements changes is
              let mut v = self.either_unknown(name, "unsure-vector-source", combo);
              v.addressed = pos; v.frame_only = true;
              return v;
            }
            for (i, p) in pos.iter().enumerate() { nd[*p] = sd[i].clone(); }
            let mut st = s.clone();
            st.get_mut(name).unwrap().v = SV::Mat(ek.clone(), r, c, nd);
            // the statement of C04 fixes this for index vectors and masks; ranges/all with a vector are natural but unstated
            let stated = matches!(sub, Sub::One(Ix::V(_)) | Sub::One(Ix::M(_)) | Sub::One(Ix::Var(_)));
            let mut v = self.verdict(if stated { Must::Ok } else { Must::Either }, After::Store(st), combo);
            v.addressed = pos;
            let by_mask = match sub {
              Sub::One(Ix::M(_)) => true,
              Sub::One(Ix::Var(y)) => matches!(s.get(y).map(|b| &b.v), Some(SV::Mat(k, ..)) if k == "bool"),
              _ => false,
            };
            // Mech reads the source at the mask positions (pinned by its suite), so whether this is
            // accepted depends on the data: never demanded, only checked when it succeeds or fails
            if by_mask { v.fault = Some("mask-with-vector-source".into()); v.must = Must::Either; }
            return v;
          }
          _ => return self.must_err("f6-source-kind", combo),
        }
        let mut st = s.clone();
        st.get_mut(name).unwrap().v = SV::Mat(ek.clone(), r, c, nd);
        let mut v = self.verdict(Must::Ok, After::Store(st), combo);
        v.addressed = pos;
        v
      }

      Op::OpAssign { name, sub, op: bop, e } => {
        let combo0 = format!("{}:{}|{}", op.kind(), bop.name(), e.form());
        let val = match eval(e, s) {
          Ev::Fail(f) => { let mut v = self.must_err(&format!("f4-source-fails:{}", f), combo0); if f == "undefined-var" { v.err_names = vec!["UndefinedVariable"]; } return v; }
          Ev::Unsure => return if s.get(name).map(|b| b.mutable).unwrap_or(false) { self.either_unknown(name, "unsure-source", combo0) } else { self.either_same("unsure-source", combo0) },
          Ev::Val(v) => v,
        };
        if let Some(v) = self.writable(name, &combo0) { return v; }
        let cur = &s[name];
        match sub {
          None => {
            let combo = format!("op-assign:{}|{}<-{}:{}", bop.name(), class_of(&cur.v), e.form(), src_form(&val));
            // `tb += r`: the record becomes a new row of the table (a copy: the record and the table stay independent)
            if let (SV::Table(rows, cols), SV::Record(fields)) = (&cur.v, &val) {
              let fits = *bop == Bop::Add && fields.len() == cols.len() && cols.iter().all(|(cn, ck, _)| fields.iter().any(|(n, kd, v)| n == cn && kd == ck && v.is_scalar()));
              if !fits { return self.either_unknown(name, "f6-record-schema", combo); }
              let mut nc = cols.clone();
              for (cn, _, data) in nc.iter_mut() { data.push(fields.iter().find(|(n, _, _)| n == cn).unwrap().2.clone()); }
              let mut st = s.clone();
              st.get_mut(name).unwrap().v = SV::Table(rows + 1, nc);
              if !st[name].origin.contains("+appended") { st.get_mut(name).unwrap().origin.push_str("+appended"); }
              return self.verdict(Must::Ok, After::Store(st), combo);
            }
            // `tb += tb2`: the rows of tb2 are appended (copies)
            if let (SV::Table(rows, cols), SV::Table(rows2, cols2)) = (&cur.v, &val) {
              let fits = *bop == Bop::Add && cols.len() == cols2.len() && cols.iter().all(|(cn, ck, _)| cols2.iter().any(|(n, kd, _)| n == cn && kd == ck));
              if !fits { return self.either_unknown(name, "f6-table-schema", combo); }
              let mut nc = cols.clone();
              for (cn, _, data) in nc.iter_mut() { data.extend(cols2.iter().find(|(n, _, _)| n == cn).unwrap().2.iter().cloned()); }
              let mut st = s.clone();
              st.get_mut(name).unwrap().v = SV::Table(rows + rows2, nc);
              if !st[name].origin.contains("+appended") { st.get_mut(name).unwrap().origin.push_str("+appended"); }
              return self.verdict(Must::Ok, After::Store(st), combo);
            }
            let defined = match (&cur.v, &val) {
              (a, b) if a.is_scalar() && b.is_scalar() => a.kind_tag() == b.kind_tag(),
              (SV::Mat(ek, ..), b) if b.is_scalar() => *ek == b.kind_tag(),
              (SV::Mat(k1, r1, c1, _), SV::Mat(k2, r2, c2, _)) => k1 == k2 && (r1, c1) == (r2, c2),
              _ => false,
            };
            if !defined { return self.either_unknown(name, "f6-source-kind", combo); }
            // element-wise on matrices for all four operators (op-assign is always element-wise)
            let res = match (&cur.v, &val) {
              (SV::Mat(ek, r, c, d1), SV::Mat(_, _, _, d2)) => {
                let mut out = vec![]; let mut fail = None;
                for (x, y) in d1.iter().zip(d2.iter()) { match binop(x, *bop, y) { Ev::Val(v) => out.push(v), Ev::Fail(f) => { fail = Some(f); break; } Ev::Unsure => return self.either_unknown(name, "unsure-op", combo) } }
                match fail { Some(f) => Ev::Fail(f), None => Ev::Val(SV::Mat(ek.clone(), *r, *c, out)) }
              }
              (a, b) => binop(a, *bop, b),
            };
            match res {
              Ev::Val(nv) => { let mut st = s.clone(); st.get_mut(name).unwrap().v = nv; self.verdict(Must::Ok, After::Store(st), combo) }
              Ev::Fail(f) => self.must_err(&format!("f4-arith:{}", f), combo),
              Ev::Unsure => self.either_unknown(name, "unsure-op", combo),
            }
          }
          Some(sub) => {
            let (ek, r, c, d) = match &cur.v { SV::Mat(ek, r, c, d) => (ek, *r, *c, d), _ => return self.either_unknown(name, "index-into-non-matrix", format!("idx-op-assign|{}", class_of(&cur.v))) };
            let combo = format!("idx-op-assign:{}|mat:{}|{}|{}:{}", bop.name(), ek, form_card(sub, r, c, s), e.form(), src_form(&val));
            let pos = match resolve(sub, r, c, s) {
              Ok(p) => p,
              Err(Some(k)) => return self.must_err(&format!("f5-index-oob@{}", k.min(4)), combo),
              Err(None) => return self.either_unknown(name, "unsure-subscript", combo),
            };
            if pos.is_empty() { return self.either_same("empty-selection", combo); }
            let mut distinct = pos.clone(); distinct.sort(); distinct.dedup();
            if distinct.len() != pos.len() { return self.either_unknown(name, "repeated-index-op-assign", combo); }
            let srcs: Vec<SV> = match &val {
              sv if sv.is_scalar() => vec![sv.clone(); pos.len()],
              SV::Mat(_, sr, sc, sd) if (*sr == 1 || *sc == 1) && sd.len() == pos.len() && matches!(sub, Sub::One(_)) => sd.clone(),
              SV::Mat(sk, ..) if sk == ek => { let mut v = self.either_unknown(name, "unsure-vector-source", combo); v.addressed = pos; v.frame_only = true; return v; }
              _ => return self.either_unknown(name, "unsure-vector-source", combo),
            };
            if srcs[0].kind_tag() != *ek {
              let both_numeric = numeric_tag(&srcs[0].kind_tag()) && numeric_tag(ek);
              return if both_numeric { self.either_unknown(name, "f6-source-kind", combo) } else { self.must_err("f6-source-kind", combo) };
            }
            let mut nd = d.clone();
            for (i, p) in pos.iter().enumerate() {
              match binop(&d[*p], *bop, &srcs[i]) {
                Ev::Val(v) => nd[*p] = v,
                Ev::Fail(f) => return self.must_err(&format!("f4-arith:{}@{}", f, (i + 1).min(4)), combo),
                Ev::Unsure => return self.either_unknown(name, "unsure-op", combo),
              }
            }
            let mut st = s.clone();
            st.get_mut(name).unwrap().v = SV::Mat(ek.clone(), r, c, nd);
            let mut v = self.verdict(Must::Ok, After::Store(st), combo);
            v.addressed = pos;
            v
          }
        }
      }

      Op::FieldAssign { name, field, e } => {
        let combo0 = format!("field-assign|{}", e.form());
        let val = match eval(e, s) {
          Ev::Fail(f) => { let mut v = self.must_err(&format!("f4-source-fails:{}", f), combo0); if f == "undefined-var" { v.err_names = vec!["UndefinedVariable"]; } return v; }
          Ev::Unsure => return if s.get(name).map(|b| b.mutable).unwrap_or(false) { self.either_unknown(name, "unsure-source", combo0) } else { self.either_same("unsure-source", combo0) },
          Ev::Val(v) => v,
        };
        if let Some(v) = self.writable(name, &combo0) { return v; }
        let cur = &s[name];
        match &cur.v {
          SV::Record(fields) => {
            let combo = format!("field-assign|record|{}:{}", e.form(), src_form(&val));
            match fields.iter().position(|(n, _, _)| n == field) {
              None => self.either_unknown(name, "f6-no-such-field", combo),
              Some(i) => {
                if fields[i].1 != val.kind_tag() { return self.either_unknown(name, "f6-source-kind", combo); }
                let mut nf = fields.clone();
                nf[i].2 = val.clone();
                let mut st = s.clone();
                st.get_mut(name).unwrap().v = SV::Record(nf);
                self.verdict(Must::Ok, After::Store(st), combo)
              }
            }
          }
          SV::Table(rows, cols) => {
            let combo = format!("field-assign|table|{}:{}", e.form(), src_form(&val));
            match cols.iter().position(|(n, _, _)| n == field) {
              None => self.either_unknown(name, "f6-no-such-column", combo),
              Some(i) => match &val {
                SV::Mat(k, r, c, d) if *k == cols[i].1 && d.len() == *rows && (*c == 1 || *r == 1) => {
                  let mut nc = cols.clone();
                  nc[i].2 = d.clone();
                  let mut st = s.clone();
                  st.get_mut(name).unwrap().v = SV::Table(*rows, nc);
                  self.verdict(if *c == 1 { Must::Ok } else { Must::Either }, After::Store(st), combo)
                }
                _ => self.either_unknown(name, "f6-source-kind-or-length", combo),
              },
            }
          }
          other => self.either_unknown(name, "field-of-non-record", format!("field-assign|{}", class_of(other))),
        }
      }

      Op::TupAssign { name, pos, e } => {
        let combo0 = format!("tuple-assign|{}", e.form());
        let val = match eval(e, s) {
          Ev::Fail(f) => { let mut v = self.must_err(&format!("f4-source-fails:{}", f), combo0); if f == "undefined-var" { v.err_names = vec!["UndefinedVariable"]; } return v; }
          Ev::Unsure => return if s.get(name).map(|b| b.mutable).unwrap_or(false) { self.either_unknown(name, "unsure-source", combo0) } else { self.either_same("unsure-source", combo0) },
          Ev::Val(v) => v,
        };
        if let Some(v) = self.writable(name, &combo0) { return v; }
        let cur = &s[name];
        match &cur.v {
          SV::Tuple(el) => {
            let combo = format!("tuple-assign|tuple|{}:{}", e.form(), src_form(&val));
            if *pos < 1 || *pos > el.len() { return self.must_err("f5-tuple-index-oob", combo); }
            if el[*pos - 1].kind_tag() != val.kind_tag() { return self.either_unknown(name, "f6-source-kind", combo); }
            let mut ne = el.clone();
            ne[*pos - 1] = val.clone();
            let mut st = s.clone();
            st.get_mut(name).unwrap().v = SV::Tuple(ne);
            self.verdict(Must::Ok, After::Store(st), combo)
          }
          other => self.either_unknown(name, "element-of-non-tuple", format!("tuple-assign|{}", class_of(other))),
        }
      }

      Op::Raw { .. } => {
        let mut v = self.verdict(Must::Ok, After::Same, "prelude".to_string());
        v.must = Must::Ok;
        v
      }

      Op::SelOpAssign { name, sel: _, op: _, e } => {
        // Not implemented on the pinned tree (todo!() behind catch_unwind): whatever happens, every
        // other binding must stay as it was; if it is rejected, this one too (f9).
        let combo = format!("selector-op-assign|{}", e.form());
        match eval(e, s) {
          Ev::Fail(f) => { let mut v = self.must_err(&format!("f4-source-fails:{}", f), combo); if f == "undefined-var" { v.err_names = vec!["UndefinedVariable"]; } return v; }
          _ => {}
        }
        if let Some(v) = self.writable(name, &combo) { return v; }
        self.either_unknown(name, "f9-unimplemented-form", combo)
      }

      Op::MapAssign { name, key, e } => {
        let combo0 = format!("map-assign|{}", e.form());
        let val = match eval(e, s) {
          Ev::Fail(f) => { let mut v = self.must_err(&format!("f4-source-fails:{}", f), combo0); if f == "undefined-var" { v.err_names = vec!["UndefinedVariable"]; } return v; }
          Ev::Unsure => return if s.get(name).map(|b| b.mutable).unwrap_or(false) { self.either_unknown(name, "unsure-source", combo0) } else { self.either_same("unsure-source", combo0) },
          Ev::Val(v) => v,
        };
        if let Some(v) = self.writable(name, &combo0) { return v; }
        let cur = &s[name];
        match &cur.v {
          SV::Map(kv) if !kv.is_empty() => {
            let combo = format!("map-assign|map:{}->{}|{}:{}", kv[0].0.kind_tag(), kv[0].1.kind_tag(), e.form(), src_form(&val));
            if kv[0].0.kind_tag() != key.kind_tag() || kv[0].1.kind_tag() != val.kind_tag() { return self.either_unknown(name, "f6-source-kind", combo); }
            let mut nkv = kv.clone();
            match nkv.iter().position(|(k, _)| k == key) { Some(i) => nkv[i].1 = val.clone(), None => nkv.push((key.clone(), val.clone())) }
            nkv.sort();
            let mut st = s.clone();
            st.get_mut(name).unwrap().v = SV::Map(nkv);
            self.verdict(Must::Ok, After::Store(st), combo)
          }
          other => self.either_unknown(name, "key-of-non-map", format!("map-assign|{}", class_of(other))),
        }
      }

      Op::Destructure { names, e } => {
        let combo = format!("destructure|{}|{}", e.form(), names.len());
        let val = match eval(e, s) {
          Ev::Fail(f) => { let mut v = self.must_err(&format!("f4-source-fails:{}", f), combo); if f == "undefined-var" { v.err_names = vec!["UndefinedVariable"]; } return v; }
          Ev::Unsure => return self.either_same("unsure-source", combo),
          Ev::Val(v) => v,
        };
        let el = match &val { SV::Tuple(el) => el.clone(), _ => return self.must_err("f8-not-a-tuple", combo) };
        let mut seen: Vec<&String> = vec![];
        for (k, n) in names.iter().enumerate() {
          if s.contains_key(n) || seen.contains(&n) {
            let mut v = self.must_err(&format!("f8-name-collision@{}", (k + 1).min(4)), combo);
            if !(k + 1 > el.len()) { v.err_names = vec!["VariableAlreadyDefined"]; }
            return v;
          }
          if k + 1 > el.len() { return self.must_err(&format!("f8-too-many-names@{}", (k + 1).min(4)), combo); }
          seen.push(n);
        }
        let mut st = s.clone();
        for (k, n) in names.iter().enumerate() {
          st.insert(n.clone(), Binding { mutable: false, v: el[k].clone(), origin: format!("destructure<-{}", e.form()), src: e.vars().first().map(|s| s.to_string()) });
        }
        self.verdict(Must::Ok, After::Store(st), combo)
      }

      Op::Read { e } => {
        let combo = format!("read|{}", e.form());
        match eval(e, s) {
          Ev::Fail(f) => { let mut v = self.must_err(&format!("f4-source-fails:{}", f), combo); if f == "undefined-var" { v.err_names = vec!["UndefinedVariable"]; } v }
          Ev::Unsure => self.either_same("unsure-read", combo),
          Ev::Val(val) => {
            let flat = matches!(e, Expr::VarIdx(_, sub) if !matches!(sub, Sub::One(Ix::S(_)) | Sub::Two(Ix::S(_), Ix::S(_))));
            let combo = match e {
              Expr::VarIdx(n, sub) => match s.get(n).map(|b| &b.v) { Some(SV::Mat(ek, r, c, _)) => format!("read|var-idx|mat:{}|{}", ek, form_card(sub, *r, *c, s)), _ => format!("read|var-idx|{}", sub.form()) },
              _ => combo,
            };
            let mut v = self.verdict(Must::Ok, After::Same, combo);
            v.ret = Some(val);
            v.ret_flat = flat;
            v
          }
        }
      }
    }
  }
}
