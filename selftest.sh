#!/bin/bash
# Determinism self-test: for every world, N runs x 2 fresh processes x worker counts {16, 1}:
# the per-run event-log digests must be identical. A mismatch is a harness error (exit 2), never a
# verdict about Mech.
N="${1:-20}"
HERE="$(cd "$(dirname "${BASH_SOURCE[0]}")" && pwd)"
BIN="$HERE/sim/target/debug/mechsim"
BINFS="$HERE/sim/target/debug/mechsim-fs"
SEED="${VERIF_SEED:-1}"
TMP="$(mktemp -d /dev/shm/mechsim-selftest.XXXXXX)"
trap 'rm -rf "$TMP"' EXIT
rc=0
for P in C04 C05 C07 C17 C19 C20; do
  if [ "$P" = C20 ]; then B="$BINFS"; ARGS="digests"; else B="$BIN"; ARGS="digests --property $P"; fi
  n=$N; [ "$P" = C07 ] && n=$(( N < 12 ? N : 12 ))
  "$B" $ARGS --runs $n --seed $SEED --jobs 16 > "$TMP/$P.a" 2>/dev/null
  "$B" $ARGS --runs $n --seed $SEED --jobs 16 > "$TMP/$P.b" 2>/dev/null
  "$B" $ARGS --runs $n --seed $SEED --jobs 1  > "$TMP/$P.c" 2>/dev/null
  la=$(wc -l < "$TMP/$P.a")
  if [ "$la" -ne "$n" ]; then echo "SELFTEST $P: expected $n digests, got $la"; rc=2; continue; fi
  if cmp -s "$TMP/$P.a" "$TMP/$P.b" && cmp -s "$TMP/$P.a" "$TMP/$P.c"; then
    echo "SELFTEST $P: $n runs x (2 processes @16 workers + 1 process @1 worker): digests identical"
  else
    echo "SELFTEST $P: DIGESTS DIFFER"; diff "$TMP/$P.a" "$TMP/$P.b" | head -5; diff "$TMP/$P.a" "$TMP/$P.c" | head -5; rc=2
  fi
done
exit $rc
