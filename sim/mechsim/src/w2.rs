//! W2 — replicas of one program under seeded re-evaluation schedules (C19).
//!
//! Two or three nodes, each a real Interpreter on its own thread with its own hash seed, are fed
//! the same program and then step requests. The PRNG decides the hash seeds, which replica runs
//! its next command, how each replica's total of N steps is decomposed, and the per-replica
//! `profile`/`trace` knobs. Oracle: whenever two replicas have executed the same total number of
//! steps their symbol tables (and what the command returned) are equal; a program without
//! assignment statements is left exactly as `interpret` left it by any number of steps.

use crate::node::*;
use crate::rng::{Digest, Rng};
use crate::sv::*;
use serde::{Deserialize, Serialize};
use serde_json::{json, Value as J};
use std::collections::BTreeMap;
use std::sync::mpsc::{channel, Receiver, Sender};

pub const WORLD_ID: u64 = 2;

#[derive(Clone, Debug, Serialize, Deserialize)]
pub struct ReplicaPlan {
  pub hash_seed: u64,
  pub profile: bool,
  pub trace: bool,
  /// step counts of the successive `step(0, c)` requests
  pub steps: Vec<u64>,
  /// the program is fed the way a REPL gets it: one `interpret` call per line (only for generated
  /// programs whose every line is a statement of its own)
  #[serde(default)]
  pub piecewise: bool,
}

#[derive(Clone, Debug, Serialize, Deserialize)]
pub struct Plan {
  pub program_name: String,
  pub program_text: String,
  pub replicas: Vec<ReplicaPlan>,
  /// which replica executes its next pending command, in order
  pub schedule: Vec<usize>,
  /// `Interpreter.max_steps` (the state-machine transition budget) of every replica of the run; it
  /// has no business bounding `step` requests. None = the default.
  #[serde(default)]
  pub max_steps: Option<usize>,
  /// second phase, after every replica has done its whole-plan requests: requests for ONE plan
  /// element (`step(id, n)`, id = 1 + raw % plan length, or plan length + 1 if `beyond`), executed
  /// by every replica; `splits[replica]` decomposes n for that replica
  #[serde(default)]
  pub singles: Vec<SingleReq>,
}

#[derive(Clone, Debug, Serialize, Deserialize)]
pub struct SingleReq { pub raw: usize, pub beyond: bool, pub n: u64, pub splits: Vec<Vec<u64>> }

enum Cmd { Interpret, Step(u64), StepOne(usize, u64), Quit }
struct Reply { outcome: Outcome, store: Store, plan_len: usize }

/// True if the text certainly contains no assignment / op-assignment statement (conservative:
/// any '=' that is not part of `:=`, `==`, `!=`, `<=`, `>=`, `=>`, `..=` counts as one).
pub fn certainly_no_assignment(text: &str) -> bool {
  let mut t = text.to_string();
  for pat in ["..=", ":=", "==", "!=", "<=", ">=", "=>", "≠", "≤", "≥"] { t = t.replace(pat, "  "); }
  !t.contains('=')
}

fn decompose(rng: &mut Rng, total: u64) -> Vec<u64> {
  match rng.below(4) {
    0 => vec![total],
    1 => (0..total).map(|_| 1).collect(),
    _ => {
      let mut left = total; let mut out = vec![];
      while left > 0 { let c = 1 + rng.below(left); out.push(c); left -= c; }
      if rng.chance(1, 4) { let p = rng.usize(out.len() + 1); out.insert(p, 0); } // a request for zero steps
      out
    }
  }
}

/// A generated program: W1's valid operations batched into one text.
thread_local! { static SUPPORTED: std::sync::Arc<std::collections::BTreeSet<String>> = crate::w1::load_supported(&format!("{}/baselines/w1_supported.txt", std::env::var("MECHSIM_VERIF").unwrap_or_else(|_| "/verif".to_string()))); }

pub fn generated_program(rng: &mut Rng, with_assignments: bool) -> String { generated_program_without(rng, with_assignments, &[]) }

/// Same, with some value classes left out (W3 leaves out tuples: `compile()` does not terminate on
/// tuple constants on the pinned tree, and every such program costs the producer deadline).
pub fn generated_program_without(rng: &mut Rng, with_assignments: bool, without: &[&str]) -> String {
  use crate::w1::{gen, model};
  let mut knobs = gen::draw_knobs(rng, "C05");
  knobs.classes.retain(|c| !without.contains(&c.as_str()));
  if knobs.classes.is_empty() { knobs.classes = vec!["scalar".to_string(), "matrix".to_string()]; }
  knobs.fault_pm = 0;
  knobs.len = 3 + rng.usize(8);
  if !with_assignments { knobs.weights = vec![6, 3, 0, 0, 0, 0, 0, 0, 2, 3]; }
  let mut m = model::Model::new(SUPPORTED.with(|s| s.clone()));
  let mut lines = vec![];
  for _ in 0..knobs.len * 3 {
    if lines.len() >= knobs.len { break; }
    let op = gen::next_op(rng, &knobs, &m);
    let v = m.apply(&op);
    if v.fault.is_some() || v.must != model::Must::Ok { continue; }
    if let model::After::Store(st) = &v.after { m.store = st.clone(); } else if !matches!(v.after, model::After::Same) { continue; }
    lines.push(op.render());
  }
  lines.join("\n")
}

/// Small programs whose re-evaluation really moves state (each step recomputes derived values
/// from a variable that an assignment or op-assignment of the same plan then changes).
pub fn template_program(rng: &mut Rng) -> (String, String) {
  let a = 1 + rng.below(9); let b = 2 + rng.below(5); let c = 1 + rng.below(4);
  match rng.below(10) {
    0 => ("template-scalar-chain".into(), format!("~x := {a}\ny := x * {b}\nx = x + {c}\nz := y - x")),
    1 => ("template-op-assign".into(), format!("~c := {a}\nc += {b}\nd := c * {c}\ne := d + c")),
    2 => ("template-vector-element".into(), format!("~v := [{a} {b} {c}]\nv[2] = v[1] + v[3]\ns := v + 1")),
    3 => ("template-matrix-row".into(), format!("~m := [{a} {b}; {c} 4]\nm[1,:] += {c}\nt := m'\nu := t + m")),
    4 => ("template-range-op".into(), format!("~w := [{a} {b} {c} 4 5]\nw[2..=4] *= 2\nq := w - 1")),
    5 => ("template-two-vars".into(), format!("~p := {a}\n~q := {b}\np = p + q\nq = q + p\nr := p * q")),
    6 => ("template-u8".into(), format!("~k := {a}u8\nk += {c}u8\nj := k * 2u8")),
    7 => ("template-index-vector".into(), format!("~g := [{a} {b} {c} 9]\ng[[1 3]] = g[[2 4]]\nh := g * 2")),
    8 => ("template-sub-div".into(), format!("~f := {a}.5\nf -= {c}\nf /= 2\ne := f * {b}")),
    _ => ("template-string".into(), format!("~s := \"a\"\ns = s + \"{a}\"\nt := s + \"!\"")),
  }
}

/// Relational and set programs with several rows/elements on each side: the steps that build
/// their output from hash-based bookkeeping only show an order dependence when more than one
/// row/element is involved (the suite's join tests leave exactly one unmatched row).
pub fn relational_program(rng: &mut Rng) -> (String, String) {
  let mut ids = |rng: &mut Rng| -> Vec<u64> { let mut v: Vec<u64> = (1..=9).collect(); rng.shuffle(&mut v); let n = 1 + rng.usize(6); let mut v: Vec<u64> = v[..n].to_vec(); if rng.chance(1, 2) { v.sort(); } v };
  match rng.below(4) {
    0 | 1 | 2 => {
      let (a, b) = (ids(rng), ids(rng));
      let ops = [("inner", "⋈"), ("left-outer", "⟕"), ("right-outer", "⟖"), ("full-outer", "⟗"), ("left-semi", "⋉"), ("left-anti", "▷")];
      let (on, op) = *rng.pick(&ops);
      let ta = format!("A := |id<u64> a<u64>| {} |", a.iter().map(|i| format!("{} {}", i, i * 10)).collect::<Vec<_>>().join(" | "));
      let tb = format!("B := |id<u64> b<u64>| {} |", b.iter().map(|i| format!("{} {}", i, i * 100)).collect::<Vec<_>>().join(" | "));
      let tail = match rng.below(3) { 0 => "\nK := J.id".to_string(), _ => String::new() };
      (format!("relational-{}-join", on), format!("{}\n{}\nJ := A {} B{}", ta, tb, op, tail))
    }
    _ => {
      let (a, b) = (ids(rng), ids(rng));
      let (on, op) = *rng.pick(&[("union", "∪"), ("intersection", "∩"), ("difference", "∖")]);
      let sa = format!("A := {{{}}}", a.iter().map(|i| i.to_string()).collect::<Vec<_>>().join(", "));
      let sb = format!("B := {{{}}}", b.iter().map(|i| i.to_string()).collect::<Vec<_>>().join(", "));
      (format!("relational-set-{}", on), format!("{}\n{}\nU := A {} B", sa, sb, op))
    }
  }
}

/// Programs whose values pass through hash-keyed bookkeeping with more than one candidate: several
/// enums sharing a variant name (which enum does `:ok(1)` belong to?), records and tables with many
/// fields, maps with many keys, kind definitions. Only an order dependence can make replicas differ.
pub fn hash_order_program(rng: &mut Rng) -> (String, String) {
  let vnames = ["ok", "no", "none", "some", "err"];
  match rng.below(4) {
    0 | 1 => {
      let n_enums = 2 + rng.usize(3);
      let shared = *rng.pick(&vnames);
      let mut lines = vec![];
      let enames = ["aa", "bb", "cc", "dd"];
      for e in 0..n_enums {
        let other = vnames[(e + 1 + rng.usize(3)) % vnames.len()];
        let other = if other == shared { "zz" } else { other };
        if rng.chance(1, 2) { lines.push(format!("<{}> := :{}<u64> | :{}", enames[e], shared, other)); } else { lines.push(format!("<{}> := :{} | :{}<u64>", enames[e], other, shared)); }
      }
      lines.push(format!("x := :{}({}u64)", shared, 1 + rng.below(9)));
      if rng.chance(1, 2) { lines.push(format!("y := :{}({}u64)", shared, 1 + rng.below(9))); }
      ("hash-order-enums-sharing-a-variant".into(), lines.join("\n"))
    }
    2 => {
      let n = 4 + rng.usize(5);
      let fields: Vec<String> = (0..n).map(|i| format!("f{}: {}", i, rng.below(100))).collect();
      let pick = rng.usize(n);
      ("hash-order-wide-record".into(), format!("r := {{{}}}\nv := r.f{}\nw := r", fields.join(", "), pick))
    }
    _ => {
      let n = 3 + rng.usize(5);
      let kv: Vec<String> = (0..n).map(|i| format!("\"k{}\": {}", i, rng.below(100))).collect();
      let pick = rng.usize(n);
      ("hash-order-wide-map".into(), format!("m := {{{}}}\nv := m{{\"k{}\"}}\nw := m", kv.join(", "), pick))
    }
  }
}

pub fn plan(seed: u64, k: u64, corpus: &[(String, String)]) -> Plan {
  let mut rng = Rng::for_run(seed, WORLD_ID * 16, k);
  let (name, text) = if (k as usize) < corpus.len() { corpus[k as usize].clone() }
    else { match rng.below(10) {
      0 | 1 => template_program(&mut rng),
      2 => if rng.chance(1, 3) { hash_order_program(&mut rng) } else { relational_program(&mut rng) },
      3..=5 => ("generated-with-assignments".to_string(), generated_program(&mut rng, true)),
      6 => ("generated-no-assignments".to_string(), generated_program(&mut rng, false)),
      _ => corpus[rng.usize(corpus.len())].clone(),
    } };
  let generated = name.starts_with("template-") || name.starts_with("relational-") || name.starts_with("hash-order-") || name.starts_with("generated-");
  let n_rep = 2 + rng.usize(2);
  let total = rng.below(13);
  let mut replicas = vec![];
  for _ in 0..n_rep {
    let piecewise = generated && rng.chance(1, 3);
    replicas.push(ReplicaPlan { hash_seed: rng.next(), profile: rng.chance(1, 4), trace: rng.chance(1, 4), steps: decompose(&mut rng, total), piecewise });
  }
  // schedule: a random interleaving of every replica's command list (interpret + its step requests)
  let mut slots = vec![];
  for (i, r) in replicas.iter().enumerate() { for _ in 0..(1 + r.steps.len()) { slots.push(i); } }
  rng.shuffle(&mut slots);
  // a low transition budget only for programs without a state-machine invocation (there it is semantic)
  let max_steps = if !text.contains('#') && rng.chance(1, 5) { Some(*rng.pick(&[1usize, 2, 3, 5])) } else { None };
  let mut singles = vec![];
  if rng.chance(1, 3) {
    for _ in 0..(1 + rng.usize(3)) {
      let n = rng.below(5);
      let splits = (0..n_rep).map(|_| decompose(&mut rng, n)).collect();
      singles.push(SingleReq { raw: rng.usize(64), beyond: rng.chance(1, 10), n, splits });
    }
  }
  Plan { program_name: name, program_text: text, replicas, schedule: slots, max_steps, singles }
}

#[derive(Clone, Debug, Serialize, Deserialize)]
pub struct Violation { pub class: String, pub signature: String, pub summary: String }

pub struct RunOut {
  pub digest: u64,
  pub nontrivial: bool,
  pub counters: BTreeMap<String, u64>,
  pub sets: BTreeMap<String, Vec<String>>,
  pub violation: Option<Violation>,
  pub log: Vec<String>,
}

fn bump(m: &mut BTreeMap<String, u64>, k: &str, n: u64) { *m.entry(k.to_string()).or_insert(0) += n; }

fn first_diff(a: &Store, b: &Store) -> String {
  for (n, m, v) in a {
    match b.iter().find(|(bn, _, _)| bn == n) {
      None => return format!("`{}` missing on the other replica", n),
      Some((_, bm, bv)) => {
        if bm != m { return format!("`{}` mutability {} vs {}", n, m, bm); }
        if bv != v { return format!("`{}` = {} vs {}", n, trunc(&v.show(), 120), trunc(&bv.show(), 120)); }
      }
    }
  }
  for (n, _, _) in b { if !a.iter().any(|(an, _, _)| an == n) { return format!("`{}` only on the other replica", n); } }
  "no difference".into()
}
fn diff_kind(a: &Store, b: &Store) -> String {
  for (n, _, v) in a {
    if let Some((_, _, bv)) = b.iter().find(|(bn, _, _)| bn == n) { if bv != v { return v.kind_tag().split(':').next().unwrap_or("").to_string(); } }
  }
  "name-set".into()
}

pub fn execute(pl: &Plan) -> RunOut {
  let mut counters = BTreeMap::new();
  let mut sets: BTreeMap<String, Vec<String>> = BTreeMap::new();
  let mut log = vec![];
  let mut dig = Digest::new();
  dig.str(&pl.program_text);
  let tree = match parse_cached(&pl.program_text) {
    Ok(t) => t,
    Err(_) => { bump(&mut counters, "reach:program-does-not-parse", 1); return RunOut { digest: dig.finish(), nontrivial: false, counters, sets, violation: None, log }; }
  };
  let no_assign = certainly_no_assignment(&pl.program_text);
  // start the replicas: real threads, parked on a channel; exactly one command runs at a time
  let mut txs: Vec<Sender<Cmd>> = vec![];
  let mut rxs: Vec<Receiver<Reply>> = vec![];
  let mut handles = vec![];
  for r in &pl.replicas {
    let (ctx, crx) = channel::<Cmd>();
    let (rtx, rrx) = channel::<Reply>();
    let tree = tree.clone();
    let rp = r.clone();
    let max_steps = pl.max_steps;
    let text = pl.program_text.clone();
    let h = std::thread::Builder::new().stack_size(crate::hashseed::NODE_STACK).spawn(move || {
      crate::hashseed::set_thread_hash_seed(rp.hash_seed);
      let mut node = Node::new();
      node.intrp.profile = rp.profile;
      node.intrp.trace = rp.trace;
      if let Some(ms) = max_steps { node.intrp.max_steps = ms; }
      while let Ok(cmd) = crx.recv() {
        let outcome = match cmd {
          Cmd::Interpret => {
            let lines: Vec<&str> = text.lines().filter(|l| !l.trim().is_empty()).collect();
            let trees: Vec<Option<mech_core::nodes::Program>> = if rp.piecewise && lines.len() >= 2 { lines.iter().map(|l| parse_cached(l).ok().filter(|t| code_items(t).map(|c| c.len() == 1).unwrap_or(false))).collect() } else { vec![] };
            if !trees.is_empty() && trees.iter().all(|t| t.is_some()) {
              let mut last = None;
              for t in trees.iter().flatten() { let o = node.interpret(t); let ok = o.is_ok(); last = Some(o); if !ok { break; } }
              last.unwrap()
            } else { node.interpret(&tree) }
          }
          Cmd::Step(c) => node.step(0, c),
          Cmd::StepOne(id, c) => node.step(id, c),
          Cmd::Quit => break,
        };
        let reply = Reply { outcome, store: node.store(), plan_len: node.plan_len() };
        if rtx.send(reply).is_err() { break; }
      }
    }).expect("spawn replica");
    txs.push(ctx); rxs.push(rrx); handles.push(h);
  }
  // per replica: next command index, total steps so far, alive
  let n = pl.replicas.len();
  let mut next_cmd = vec![0usize; n];
  let mut total = vec![0u64; n];
  let mut alive = vec![true; n];
  // history[total steps] = (replica, store, outcome of the command that reached it)
  let mut seen: BTreeMap<u64, (usize, Store, Outcome, u8)> = BTreeMap::new();
  let mut after_interpret: Vec<Option<Store>> = vec![None; n];
  let mut interpret_outcome: Option<(usize, Outcome)> = None;
  let mut violation: Option<Violation> = None;
  let mut state_changed_by_steps = false;
  let vio = |class: &str, detail: String, summary: String| Violation { class: class.to_string(), signature: format!("{}|{}|{}", class, pl.program_name, detail), summary };

  for &ri in &pl.schedule {
    if violation.is_some() { break; }
    if !alive[ri] { continue; }
    let ci = next_cmd[ri];
    next_cmd[ri] += 1;
    let (cmd, label) = if ci == 0 { (Cmd::Interpret, "interpret".to_string()) } else { let c = pl.replicas[ri].steps[ci - 1]; (Cmd::Step(c), format!("step(0,{})", c)) };
    let is_step = ci > 0;
    let stepc = if is_step { pl.replicas[ri].steps[ci - 1] } else { 0 };
    if txs[ri].send(cmd).is_err() { alive[ri] = false; continue; }
    let reply = match rxs[ri].recv() {
      Ok(r) => r,
      Err(_) => { alive[ri] = false; violation = Some(vio("host-aborted", "replica-thread-died".into(), format!("replica {} died executing {}", ri, label))); break; }
    };
    bump(&mut counters, "steps", 1);
    dig.u64(ri as u64); dig.str(&label); dig.str(&reply.outcome.digest_text()); dig.u64(store_digest(&reply.store));
    log.push(format!("replica {} {} => {} ; store digest {:016x} ; plan {}", ri, label, trunc(&reply.outcome.show(), 100), store_digest(&reply.store), reply.plan_len));
    if !is_step {
      bump(&mut counters, &format!("reach:interpret-{}", reply.outcome.class()), 1);
      match &interpret_outcome {
        None => interpret_outcome = Some((ri, reply.outcome.clone())),
        Some((r0, o0)) => {
          let same = match (o0, &reply.outcome) { (Outcome::Err { name: a, .. }, Outcome::Err { name: b, .. }) => a == b, (a, b) => a == b };
          if !same { violation = Some(vio("interpret-outcome-differs", String::new(), format!("replica {} (hash seed {}) got {} ; replica {} (hash seed {}) got {}", r0, pl.replicas[*r0].hash_seed, o0.show(), ri, pl.replicas[ri].hash_seed, reply.outcome.show()))); break; }
        }
      }
      if !reply.outcome.is_ok() { alive[ri] = false; }
      after_interpret[ri] = Some(reply.store.clone());
    } else {
      bump(&mut counters, "plan-reevaluations", stepc * reply.plan_len as u64);
      match &reply.outcome {
        Outcome::Ok(_) => { total[ri] += stepc; bump(&mut counters, "reach:step-ok", 1); }
        Outcome::Err { name, .. } => { bump(&mut counters, &format!("reach:step-err:{}", name), 1); alive[ri] = false; if name != "NoStepsInPlan" { continue; } else { total[ri] += stepc; } }
        _ => { bump(&mut counters, "reach:step-panicked", 1); alive[ri] = false; continue; }
      }
      if let Some(s0) = &after_interpret[ri] { if *s0 != reply.store { state_changed_by_steps = true; } }
      // (2) programs without assignments: re-evaluation is a no-op
      if no_assign {
        if let Some(s0) = &after_interpret[ri] {
          if *s0 != reply.store {
            violation = Some(vio("reevaluation-changed-assignment-free-program", diff_kind(s0, &reply.store), format!("replica {} after {} total steps: {} (after interpret vs now)", ri, total[ri], first_diff(s0, &reply.store))));
            break;
          }
        }
      }
    }
    // (1) same total number of steps => equal stores, and equal results for commands of the same kind
    if reply.outcome.is_ok() || matches!(&reply.outcome, Outcome::Err { name, .. } if name == "NoStepsInPlan") {
      let t = total[ri];
      let kind = if is_step { 1u8 } else { 0u8 };
      match seen.get(&t) {
        None => { seen.insert(t, (ri, reply.store.clone(), reply.outcome.clone(), kind)); }
        Some((r0, s0, o0, k0)) => {
          if *s0 != reply.store {
            violation = Some(vio("replicas-diverged", diff_kind(s0, &reply.store), format!("after {} total steps replica {} (hash seed {}, steps {:?}) and replica {} (hash seed {}, steps {:?}) differ: {}", t, r0, pl.replicas[*r0].hash_seed, pl.replicas[*r0].steps, ri, pl.replicas[ri].hash_seed, pl.replicas[ri].steps, first_diff(s0, &reply.store))));
            break;
          }
          if *k0 == kind {
            let same = match (o0, &reply.outcome) { (Outcome::Err { name: a, .. }, Outcome::Err { name: b, .. }) => a == b, (a, b) => a == b };
            if !same {
              violation = Some(vio("command-result-differs", if is_step { "step".into() } else { "interpret".into() }, format!("after {} total steps replica {} returned {} and replica {} returned {}", t, r0, trunc(&o0.show(), 100), ri, trunc(&reply.outcome.show(), 100))));
              break;
            }
          } else if *k0 == 0 && kind == 1 {
            // remember a step result for this total as well, so later step results are compared with it
            seen.insert(t, (ri, reply.store.clone(), reply.outcome.clone(), kind));
          }
        }
      }
    }
  }
  // ---- phase 2: requests for one plan element, the same list on every replica
  if violation.is_none() && !pl.singles.is_empty() && alive.iter().all(|a| *a) && total.iter().all(|t| *t == total[0]) {
    'reqs: for (j, rq) in pl.singles.iter().enumerate() {
      let mut results: Vec<(Outcome, Store)> = vec![];
      for ri in 0..n {
        let mut last: Option<(Outcome, Store)> = None;
        let parts: Vec<u64> = rq.splits.get(ri).cloned().unwrap_or_else(|| vec![rq.n]);
        let parts = if parts.is_empty() { vec![0] } else { parts };
        for c in parts {
          // the plan length is the same on every replica (checked through the stores and outcomes so far)
          if txs[ri].send(Cmd::StepOne(usize::MAX, 0)).is_err() { break 'reqs; } // probe: plan length
          let plen = match rxs[ri].recv() { Ok(r) => r.plan_len, Err(_) => break 'reqs };
          if plen == 0 { break 'reqs; }
          let id = if rq.beyond { plen + 1 } else { 1 + rq.raw % plen };
          if txs[ri].send(Cmd::StepOne(id, c)).is_err() { break 'reqs; }
          let reply = match rxs[ri].recv() { Ok(r) => r, Err(_) => { violation = Some(vio("host-aborted", "replica-thread-died".into(), format!("replica {} died executing step({},{})", ri, id, c))); break 'reqs; } };
          bump(&mut counters, "steps", 1);
          bump(&mut counters, "fault:single-element-step", 1);
          if rq.beyond { bump(&mut counters, "fault:step-id-beyond-the-plan", 1); }
          dig.u64(ri as u64); dig.str(&format!("step({},{})", id, c)); dig.str(&reply.outcome.digest_text()); dig.u64(store_digest(&reply.store));
          log.push(format!("replica {} step({},{}) => {} ; store digest {:016x}", ri, id, c, trunc(&reply.outcome.show(), 100), store_digest(&reply.store)));
          if !matches!(&reply.outcome, Outcome::Ok(_) | Outcome::Err { .. }) { bump(&mut counters, "reach:step-panicked", 1); break 'reqs; }
          if no_assign {
            if let Some(s0) = &after_interpret[ri] {
              if *s0 != reply.store { violation = Some(vio("reevaluation-changed-assignment-free-program", format!("single-element|{}", diff_kind(s0, &reply.store)), format!("replica {} after step({},{}): {} (after interpret vs now)", ri, id, c, first_diff(s0, &reply.store)))); break 'reqs; }
            }
          }
          last = Some((reply.outcome, reply.store));
        }
        match last { Some(x) => results.push(x), None => break 'reqs }
      }
      // request j done everywhere: same store; same kind of answer (values only when the last piece was not a zero-count request)
      for ri in 1..results.len() {
        if results[ri].1 != results[0].1 {
          violation = Some(vio("replicas-diverged", format!("single-element|{}", diff_kind(&results[0].1, &results[ri].1)), format!("after single-element request #{} (n={}, splits {:?} vs {:?}) replica 0 and replica {} differ: {}", j, rq.n, rq.splits.get(0), rq.splits.get(ri), ri, first_diff(&results[0].1, &results[ri].1))));
          break 'reqs;
        }
        let same = match (&results[0].0, &results[ri].0) { (Outcome::Err { name: a, .. }, Outcome::Err { name: b, .. }) => a == b, (Outcome::Ok(a), Outcome::Ok(b)) => a == b, _ => false };
        if !same {
          violation = Some(vio("command-result-differs", "single-element-step".into(), format!("single-element request #{}: replica 0 returned {} and replica {} returned {}", j, trunc(&results[0].0.show(), 100), ri, trunc(&results[ri].0.show(), 100))));
          break 'reqs;
        }
      }
    }
  }
  for tx in &txs { tx.send(Cmd::Quit).ok(); }
  drop(txs);
  for h in handles { let _ = h.join(); }
  if no_assign { bump(&mut counters, "reach:programs-without-assignment", 1); } else { bump(&mut counters, "reach:programs-with-assignment", 1); }
  let hs: std::collections::BTreeSet<u64> = pl.replicas.iter().map(|r| r.hash_seed).collect();
  bump(&mut counters, "replica-pairs-with-different-hash-seeds", (hs.len() * (hs.len().saturating_sub(1)) / 2) as u64);
  bump(&mut counters, "fault:hash-seed-change", hs.len() as u64);
  bump(&mut counters, "fault:step-split", pl.replicas.iter().filter(|r| r.steps.len() > 1).count() as u64);
  bump(&mut counters, "fault:profile-knob", pl.replicas.iter().filter(|r| r.profile).count() as u64);
  bump(&mut counters, "fault:trace-knob", pl.replicas.iter().filter(|r| r.trace).count() as u64);
  if pl.max_steps.is_some() { bump(&mut counters, "fault:low-transition-budget-knob", 1); }
  bump(&mut counters, "fault:fed-line-by-line", pl.replicas.iter().filter(|r| r.piecewise).count() as u64);
  if state_changed_by_steps { bump(&mut counters, "reach:runs-where-steps-changed-state", 1); }
  sets.insert("programs".into(), vec![pl.program_name.clone()]);
  let max_total = total.iter().copied().max().unwrap_or(0);
  RunOut { digest: dig.finish(), nontrivial: max_total > 0 && interpret_outcome.as_ref().map(|(_, o)| o.is_ok()).unwrap_or(false), counters, sets, violation, log }
}

pub fn worker_run(seed: u64, k: u64, corpus: &std::sync::Arc<Vec<(String, String)>>) -> J {
  let pl = plan(seed, k, corpus);
  let out = execute(&pl);
  let violations: Vec<J> = out.violation.iter().map(|v| {
    // minimise: fewer replicas / fewer step requests while the same signature persists
    let min = minimise(&pl, &v.signature);
    let out2 = execute(&min);
    let (fpl, fout) = if out2.violation.as_ref().map(|x| x.signature == v.signature).unwrap_or(false) { (min, out2) } else { (pl.clone(), execute(&pl)) };
    let vv = fout.violation.clone().unwrap_or(v.clone());
    json!({
      "properties": ["C19"], "class": v.class, "signature": v.signature, "summary": format!("run {}: program `{}`: {}", k, pl.program_name, vv.summary),
      "replay": {"world": "W2", "seed": seed, "run": k, "plan": fpl, "event_log": fout.log, "violation": vv, "faults": fpl.replicas.iter().enumerate().map(|(i, r)| format!("replica {}: hash seed {}, profile {}, trace {}, steps {:?}", i, r.hash_seed, r.profile, r.trace, r.steps)).collect::<Vec<_>>(), "schedule": fpl.schedule},
    })
  }).collect();
  let sample = if k % 499 == 2 { json!({"run": k, "program": pl.program_name, "text": pl.program_text, "replicas": pl.replicas, "schedule": pl.schedule, "event_log": out.log}) } else { J::Null };
  json!({ "digest": out.digest, "nontrivial": out.nontrivial, "state_digests": [], "counters": out.counters, "sets": out.sets, "violations": violations, "sample": sample })
}

fn minimise(pl: &Plan, sig: &str) -> Plan {
  let same = |c: &Plan| execute(c).violation.map(|v| v.signature == sig).unwrap_or(false);
  let mut cur = pl.clone();
  // drop a replica
  let mut i = 0;
  while cur.replicas.len() > 1 && i < cur.replicas.len() {
    let mut c = cur.clone();
    c.replicas.remove(i);
    c.schedule = c.schedule.iter().filter(|&&r| r != i).map(|&r| if r > i { r - 1 } else { r }).collect();
    if same(&c) { cur = c; } else { i += 1; }
  }
  // canonical schedule: replica 0 first, then 1, ...
  let mut c = cur.clone();
  c.schedule = (0..c.replicas.len()).flat_map(|i| std::iter::repeat(i).take(1 + c.replicas[i].steps.len())).collect();
  if same(&c) { cur = c; }
  // knobs off
  for i in 0..cur.replicas.len() {
    let mut c = cur.clone(); c.replicas[i].profile = false; if same(&c) { cur = c; }
    let mut c = cur.clone(); c.replicas[i].trace = false; if same(&c) { cur = c; }
  }
  cur
}

pub fn replay(j: &J) -> Option<String> {
  let pl: Plan = serde_json::from_value(j["plan"].clone()).ok()?;
  let out = execute(&pl);
  for l in &out.log { println!("{}", l); }
  out.violation.map(|v| { println!("{}", v.summary); v.signature })
}
