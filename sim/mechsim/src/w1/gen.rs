//! W1 workload generator: draws the next operation from the PRNG given the model's current store,
//! so that operations and faults land where in-flight state exists. Swarm knobs vary per run.

use super::model::*;
use super::ops::*;
use crate::rng::Rng;
use crate::sv::*;
use serde::{Deserialize, Serialize};

#[derive(Clone, Debug, Serialize, Deserialize)]
pub struct Knobs {
  /// "C04": matrix targets and the index-form grid; "C05": the full statement alphabet
  pub profile: String,
  pub names: Vec<String>,
  pub len: usize,
  /// per mille probability that an operation is drawn from the fault variants
  pub fault_pm: u32,
  /// element kinds enabled in this run
  pub kinds: Vec<String>,
  /// value classes enabled: scalar, matrix, record, tuple, set, table
  pub classes: Vec<String>,
  /// weights: define, mdefine, assign, idx-assign, op-assign, idx-op-assign, field-assign, tuple-assign, destructure, read, map-assign
  pub weights: Vec<u32>,
  pub max_dim: usize,
  /// the session starts with a prelude of user functions, and sources may call them
  #[serde(default)]
  pub functions: bool,
}

pub fn draw_knobs(rng: &mut Rng, profile: &str) -> Knobs {
  let all_names = ["x", "y", "z", "p", "q"];
  let n_names = 2 + rng.usize(4);
  let names = all_names[..n_names].iter().map(|s| s.to_string()).collect();
  let len = match rng.below(10) { 0..=5 => 3 + rng.usize(10), 6..=8 => 12 + rng.usize(14), _ => 25 + rng.usize(16) };
  let fault_pm = match rng.below(5) { 0 => 0, 1 => 80, 2 => 150, 3 => 250, _ => 400 };
  let mut kinds = vec!["f64".to_string()];
  // every element kind has its own generated kernels: all of them take part, a few per run
  for k in ["u8", "i64", "bool", "string", "u16", "i8"] { if rng.chance(1, 3) { kinds.push(k.to_string()); } }
  for k in ["u32", "u64", "i16", "i32", "f32", "u128", "i128"] { if rng.chance(1, 5) { kinds.push(k.to_string()); } }
  let mut classes = vec![];
  if profile == "C04" {
    classes.push("matrix".to_string());
    if rng.chance(1, 2) { classes.push("scalar".to_string()); }
  } else {
    for c in ["scalar", "matrix", "record", "tuple", "set", "table"] { if rng.chance(3, 5) { classes.push(c.to_string()); } }
    if rng.chance(1, 4) { classes.push("map".to_string()); }
    if classes.is_empty() { classes.push("scalar".to_string()); classes.push("matrix".to_string()); }
  }
  let mut weights: Vec<u32> = if profile == "C04" {
    vec![2, 6, 2, 14, 4, 8, 0, 0, 0, 6, 0]
  } else {
    vec![6, 6, 6, 5, 4, 3, 4, 3, 3, 4, 4]
  };
  // swarm: knock out or boost some operation kinds
  for w in weights.iter_mut() {
    match rng.below(8) { 0 => *w = 0, 1 => *w *= 3, _ => {} }
  }
  if weights[0] + weights[1] == 0 { weights[1] = 4; }
  let max_dim = 2 + rng.usize(3);
  let functions = profile == "C05" && rng.chance(1, 2);
  Knobs { profile: profile.to_string(), names, len, fault_pm, kinds, classes, weights, max_dim, functions }
}

const F64S: [f64; 14] = [0.0, 1.0, 2.0, 3.0, 5.0, 7.0, 10.0, 42.0, 100.0, -1.0, -3.0, 0.5, 1.5, 2.25];
const STRS: [&str; 5] = ["a", "b", "hi", "zz", "mech"];

pub fn gen_scalar(rng: &mut Rng, kind: &str) -> SV {
  match kind {
    "f64" => SV::f64(*rng.pick(&F64S)),
    "f32" => SV::F32(canon_f32(*rng.pick(&F64S) as f32)),
    "bool" => SV::Bool(rng.chance(1, 2)),
    "string" => SV::Str(rng.pick(&STRS).to_string()),
    k => {
      let nk = NK::from_name(k).unwrap();
      let (lo, hi) = nk.int_range().unwrap();
      let cands: Vec<i128> = vec![0, 1, 2, 3, 7, 9, 100, hi, hi - 1, hi - 5, lo, lo + 1, -1, -5, 20];
      // negative literals are rendered as `-n<kind>`, i.e. the negation of n: the minimum of a signed
      // kind has no such spelling (n would saturate), so it is never generated as a literal
      let ok: Vec<i128> = cands.into_iter().filter(|x| *x >= lo && *x <= hi && x.unsigned_abs() < (1u128 << 62) && !(lo < 0 && *x == lo)).collect();
      SV::Int(nk, *rng.pick(&ok))
    }
  }
}

/// Matrix elements: as scalars, except that negative integers are left out — `[-1<i64> 2<i64>]` is a
/// concatenation of a negation formula, which Mech does not accept for every kind; whether it should
/// is no business of C04/C05.
fn gen_element(rng: &mut Rng, kind: &str) -> SV {
  loop {
    let v = gen_scalar(rng, kind);
    if let SV::Int(_, x) = &v { if *x < 0 { continue; } }
    return v;
  }
}

fn literal_matrix_kind(kind: &str) -> bool { kind != "f32" && !NK::from_name(kind).map(|k| k.is_signed()).unwrap_or(false) }

pub fn gen_matrix(rng: &mut Rng, kind: &str, max_dim: usize) -> SV {
  let kind = if literal_matrix_kind(kind) { kind } else { "f64" };
  let (r, c) = match rng.below(6) {
    0 | 1 => (1, 2 + rng.usize(max_dim.max(2) + 1)),
    2 => (2 + rng.usize(max_dim), 1),
    _ => (2 + rng.usize(max_dim - 1), 2 + rng.usize(max_dim - 1)),
  };
  let d = (0..r * c).map(|_| gen_element(rng, kind)).collect();
  SV::Mat(kind.to_string(), r, c, d)
}

fn gen_vector_of(rng: &mut Rng, kind: &str, n: usize, column: bool) -> SV {
  let d = (0..n).map(|_| gen_element(rng, kind)).collect();
  if column { SV::Mat(kind.to_string(), n, 1, d) } else { SV::Mat(kind.to_string(), 1, n, d) }
}

pub fn gen_value(rng: &mut Rng, k: &Knobs, class: &str) -> SV {
  let kind = rng.pick(&k.kinds).clone();
  match class {
    "scalar" => gen_scalar(rng, &kind),
    "matrix" => gen_matrix(rng, &kind, k.max_dim),
    // a record with the schema of the generated tables (a row that can be appended to one)
    "record" if rng.chance(1, 4) => SV::Record(vec![("a".to_string(), "f64".to_string(), gen_scalar(rng, "f64")), ("b".to_string(), "f64".to_string(), gen_scalar(rng, "f64"))]),
    "record" => {
      let n = 2 + rng.usize(2);
      let fnames = ["a", "b", "c"];
      let mut fields: Vec<(String, String, SV)> = (0..n).map(|i| { let kk = rng.pick(&k.kinds).clone(); let v = gen_scalar(rng, &kk); (fnames[i].to_string(), v.kind_tag(), v) }).collect();
      // nested: now and then a field holds a small matrix (copied with the record, never shared)
      if rng.chance(1, 4) { let len = 2 + rng.usize(2); let v = gen_vector_of(rng, "f64", len, false); fields.push(("m".to_string(), v.kind_tag(), v)); }
      SV::Record(fields)
    }
    "tuple" => {
      let n = 2 + rng.usize(2);
      let mut els: Vec<SV> = (0..n).map(|_| { let kk = rng.pick(&k.kinds).clone(); gen_scalar(rng, &kk) }).collect();
      if rng.chance(1, 4) { els.push(gen_vector_of(rng, "f64", 2, false)); }
      if rng.chance(1, 6) { let v = gen_scalar(rng, "f64"); els.push(SV::Record(vec![("x".to_string(), v.kind_tag(), v)])); }
      SV::Tuple(els)
    }
    "set" => {
      let mut els: Vec<SV> = vec![];
      for _ in 0..(2 + rng.usize(3)) { let v = gen_scalar(rng, "f64"); if !els.contains(&v) { els.push(v); } }
      els.sort();
      SV::Set("f64".into(), els)
    }
    "map" => {
      let string_keys = rng.chance(2, 3);
      let vk = rng.pick(&["f64", "string", "bool", "u8"]).to_string();
      let n = 1 + rng.usize(3);
      let mut kv: Vec<(SV, SV)> = vec![];
      for i in 0..n {
        let key = if string_keys { SV::Str(["a", "b", "c"][i].to_string()) } else { SV::f64((i + 1) as f64) };
        kv.push((key, gen_scalar(rng, &vk)));
      }
      kv.sort();
      SV::Map(kv)
    }
    "table" => {
      let rows = 2 + rng.usize(2);
      let cols = ["a", "b"];
      SV::Table(rows, cols.iter().map(|c| (c.to_string(), "f64".to_string(), (0..rows).map(|_| gen_scalar(rng, "f64")).collect())).collect())
    }
    _ => gen_scalar(rng, &kind),
  }
}

fn nosuchvars<'a>(k: &'a Knobs, m: &Model) -> Vec<&'a String> {
  k.names.iter().filter(|n| !m.store.contains_key(*n)).collect()
}
fn names_where<'a>(m: &'a Model, f: impl Fn(&Binding) -> bool) -> Vec<&'a String> {
  m.store.iter().filter(|(_, b)| f(b)).map(|(n, _)| n).collect()
}

fn gen_ix(rng: &mut Rng, n: usize, oob: bool, for_vector_src: bool) -> Ix {
  // n: extent of this dimension. oob: make it out of range at some position.
  let form = rng.below(if for_vector_src { 2 } else { 6 });
  let bad = |rng: &mut Rng| -> i64 { match rng.below(4) { 0 => 0, 1 => -1, 2 => n as i64 + 1, _ => n as i64 + 2 + rng.usize(5) as i64 } };
  match form {
    0 => { // index vector (distinct)
      let mut all: Vec<i64> = (1..=n as i64).collect();
      rng.shuffle(&mut all);
      let len = 1 + rng.usize(n.min(4));
      let mut v: Vec<i64> = all[..len].to_vec();
      if !for_vector_src && rng.chance(1, 5) && len >= 2 { v[len - 1] = v[0]; } // repeats allowed with scalar sources
      if oob { let p = rng.usize(v.len()); v[p] = bad(rng); }
      if v.len() == 1 && !oob { v.push(if v[0] == 1 && n > 1 { 2 } else { 1 }); if n == 1 { v.truncate(1); } }
      Ix::V(v)
    }
    1 => { // mask
      if oob { return Ix::V(vec![1, bad(rng)]); }
      let mut m: Vec<bool> = (0..n).map(|_| rng.chance(1, 2)).collect();
      if !m.iter().any(|b| *b) { let p = rng.usize(n); m[p] = true; }
      Ix::M(m)
    }
    2 => Ix::S(if oob { bad(rng) } else { 1 + rng.usize(n) as i64 }),
    3 => {
      let a = 1 + rng.usize(n) as i64;
      let b = a + rng.usize(n - a as usize + 1) as i64;
      if oob { Ix::R(a.max(1), n as i64 + 1 + rng.usize(3) as i64) } else { Ix::R(a, b) }
    }
    4 => {
      let a = 1 + rng.usize(n) as i64;
      let b = a + 1 + rng.usize(n - a as usize + 1) as i64;
      if oob { Ix::RX(a, n as i64 + 2 + rng.usize(3) as i64) } else { Ix::RX(a, b) }
    }
    _ => if oob { Ix::S(bad(rng)) } else { Ix::All },
  }
}

fn gen_sub(rng: &mut Rng, r: usize, c: usize, oob: bool, for_vector_src: bool) -> Sub {
  if for_vector_src || rng.chance(2, 5) || (r == 1 || c == 1) && rng.chance(1, 2) {
    Sub::One(gen_ix(rng, r * c, oob, for_vector_src))
  } else {
    let which = rng.below(2);
    let i = gen_ix(rng, r, oob && which == 0, false);
    let j = gen_ix(rng, c, oob && which == 1, false);
    Sub::Two(i, j)
  }
}

pub const PRELUDE: &str = "inc(x<f64>) = z<f64> :=\n    z := x + 1.\naddtwo(x<f64>, y<f64>) = z<f64> :=\n    p := x + 0\n    z := p + y.\nbad(x<f64>) = z<f64> :=\n    y := x + 1\n    q := y + nosuchvar\n    z := q + 1.\nshadow(x<f64>) = z<f64> :=\n    y := x * 2\n    p := y + 1\n    z := p - 3.\nmut(x<f64>) = z<f64> :=\n    ~m := x\n    m = m + 1\n    z := m.\nmutm(x<[f64]>) = z<[f64]> :=\n    ~m := x\n    m[1] = 99\n    z := m.\nidf(a<f64>) => <f64>\n  | n => n.\npick(x<f64>) = z<f64> :=\n    y := [1 2 3]\n    p := x + 1\n    z := y[7].\novf(x<f64>) = z<u8> :=\n    y := 250u8\n    p := x + 1\n    z := y + 10u8.";

thread_local! { static FUNCTIONS_ON: std::cell::Cell<bool> = const { std::cell::Cell::new(false) }; }
pub fn set_functions(on: bool) { FUNCTIONS_ON.with(|f| f.set(on)); }

fn call_source(rng: &mut Rng, m: &Model) -> Expr {
  let arg = |rng: &mut Rng| -> Expr {
    let holders = names_where(m, |b| matches!(b.v, SV::F64(_)));
    if !holders.is_empty() && rng.chance(1, 2) { Expr::Var((*rng.pick(&holders)).clone()) } else { Expr::Lit(gen_scalar(rng, "f64")) }
  };
  match rng.below(8) {
    0 | 1 => Expr::Call("inc".into(), vec![arg(rng)]),
    2 | 3 => Expr::Call("addtwo".into(), vec![arg(rng), arg(rng)]),
    4 => Expr::Call("shadow".into(), vec![arg(rng)]),
    // a body that defines a mutable local from its argument and assigns to it: the caller's variable must not move
    5 => Expr::Call("mut".into(), vec![arg(rng)]),
    // a match-arm function that hands back its argument: the result must be a value of its own
    6 => Expr::Call("idf".into(), vec![arg(rng)]),
    _ => Expr::Call("inc".into(), vec![Expr::Call("shadow".into(), vec![arg(rng)])]),
  }
}

/// `(x, 2)`, `{a: x, b: 2}`, `{"a": x}`, `[a]`, `[a b]` over the session's variables; kinds follow the run's classes.
fn built_source(rng: &mut Rng, k: &Knobs, m: &Model) -> Option<Expr> {
  let scalars = names_where(m, |b| b.v.is_scalar());
  let f64s = names_where(m, |b| matches!(b.v, SV::F64(_)));
  let mats = names_where(m, |b| b.v.is_matrix());
  let rows = names_where(m, |b| matches!(&b.v, SV::Mat(ek, 1, _, _) if ek == "f64"));
  let mut kinds: Vec<&str> = vec![];
  if k.classes.iter().any(|c| c == "tuple") && (!scalars.is_empty() || !mats.is_empty()) { kinds.push("tuple"); }
  if k.classes.iter().any(|c| c == "record") && !scalars.is_empty() { kinds.push("record"); }
  if k.classes.iter().any(|c| c == "map") && !f64s.is_empty() { kinds.push("map"); }
  if k.classes.iter().any(|c| c == "matrix") && (!mats.is_empty() || !f64s.is_empty()) { kinds.push("mat"); }
  if k.classes.iter().any(|c| c == "table") && !f64s.is_empty() { kinds.push("table"); }
  if k.classes.iter().any(|c| c == "tuple") && !scalars.is_empty() { kinds.push("nested-tuple"); }
  if k.classes.iter().any(|c| c == "set") && !f64s.is_empty() { kinds.push("set"); }
  if !scalars.is_empty() || !mats.is_empty() { kinds.push("match-id"); }
  if kinds.is_empty() { return None; }
  let kind = *rng.pick(&kinds);
  let var_of = |rng: &mut Rng, pool: &Vec<&String>| BuiltElem::Var((*rng.pick(pool)).clone());
  let els: Vec<BuiltElem> = match kind {
    "tuple" => {
      let pool: Vec<&String> = scalars.iter().chain(mats.iter()).cloned().collect();
      let mut v = vec![var_of(rng, &pool)];
      for _ in 0..rng.usize(3) { if rng.chance(1, 2) { v.push(var_of(rng, &pool)); } else { v.push(BuiltElem::Lit(gen_scalar(rng, "f64"))); } }
      if v.len() == 1 { v.push(BuiltElem::Lit(gen_scalar(rng, "f64"))); }
      v
    }
    "record" => {
      let mut v = vec![var_of(rng, &scalars)];
      for _ in 0..rng.usize(3) { if rng.chance(1, 2) { v.push(var_of(rng, &scalars)); } else { let kk = rng.pick(&k.kinds).clone(); v.push(BuiltElem::Lit(gen_scalar(rng, &kk))); } }
      v
    }
    "nested-tuple" => {
      let mut v = vec![var_of(rng, &scalars), BuiltElem::Lit(gen_scalar(rng, "f64")), BuiltElem::Lit(gen_scalar(rng, "f64"))];
      if rng.chance(1, 2) { v[1] = var_of(rng, &scalars); }
      if rng.chance(1, 3) { v.push(var_of(rng, &scalars)); }
      v
    }
    "set" => {
      let mut v = vec![var_of(rng, &f64s)];
      for _ in 0..(1 + rng.usize(2)) { if rng.chance(1, 2) { v.push(var_of(rng, &f64s)); } else { v.push(BuiltElem::Lit(gen_scalar(rng, "f64"))); } }
      v
    }
    "match-id" => { let pool: Vec<&String> = scalars.iter().chain(mats.iter()).cloned().collect(); vec![var_of(rng, &pool)] }
    "table" => {
      let rows = 1 + rng.usize(3);
      let mut v: Vec<BuiltElem> = (0..rows * 2).map(|_| if rng.chance(1, 2) { var_of(rng, &f64s) } else { BuiltElem::Lit(gen_scalar(rng, "f64")) }).collect();
      if !v.iter().any(|e| matches!(e, BuiltElem::Var(_))) { v[0] = var_of(rng, &f64s); }
      v
    }
    "map" => {
      let mut v = vec![var_of(rng, &f64s)];
      for _ in 0..rng.usize(3) { if rng.chance(1, 2) { v.push(var_of(rng, &f64s)); } else { v.push(BuiltElem::Lit(gen_scalar(rng, "f64"))); } }
      v
    }
    _ => {
      if !mats.is_empty() && rng.chance(1, 2) { vec![var_of(rng, &mats)] } else {
        let pool: Vec<&String> = f64s.iter().chain(rows.iter()).cloned().collect();
        if pool.is_empty() { return None; }
        let mut v = vec![var_of(rng, &pool)];
        for _ in 0..(1 + rng.usize(2)) { if rng.chance(2, 3) { v.push(var_of(rng, &pool)); } else { v.push(BuiltElem::Lit(gen_scalar(rng, "f64"))); } }
        v
      }
    }
  };
  Some(Expr::Built(kind.to_string(), els))
}

/// A source expression of the given element kind (scalar), possibly through a variable.
fn scalar_source(rng: &mut Rng, m: &Model, kind: &str) -> Expr {
  if kind == "f64" && FUNCTIONS_ON.with(|f| f.get()) && rng.chance(1, 4) { return call_source(rng, m); }
  let holders = names_where(m, |b| b.v.is_scalar() && b.v.kind_tag() == kind);
  if !holders.is_empty() && rng.chance(1, 3) {
    let n = (*rng.pick(&holders)).clone();
    if rng.chance(1, 2) && (kind == "f64") { Expr::VarOp(n, *rng.pick(&[Bop::Add, Bop::Mul, Bop::Sub]), gen_scalar(rng, kind)) } else { Expr::Var(n) }
  } else {
    Expr::Lit(gen_scalar(rng, kind))
  }
}

fn scalar_of_other_kind(rng: &mut Rng, kind: &str) -> SV {
  let k = other_kind(rng, kind);
  gen_scalar(rng, &k)
}
fn gen_vec_rand(rng: &mut Rng, kind: &str, n: usize) -> SV {
  let col = rng.chance(1, 2);
  gen_vector_of(rng, kind, n, col)
}

fn other_kind(rng: &mut Rng, kind: &str) -> String {
  let all = ["f64", "u8", "i64", "bool", "string"];
  loop { let k = *rng.pick(&all); if k != kind { return k.to_string(); } }
}

fn failing_source(rng: &mut Rng, k: &Knobs, m: &Model) -> Expr {
  if k.functions && rng.chance(1, 3) {
    return match rng.below(5) {
      // fails inside the body, after the input and a local were bound
      0 => Expr::Call("bad".into(), vec![Expr::Lit(gen_scalar(rng, "f64"))]),
      // the body *panics* (out-of-range read / integer overflow) after binding its input and two locals:
      // the scope is left by unwinding, not by an error return
      3 => Expr::Call("pick".into(), vec![if rng.chance(1, 2) { Expr::Lit(gen_scalar(rng, "f64")) } else { let h = names_where(m, |b| matches!(b.v, SV::F64(_))); if h.is_empty() { Expr::Lit(gen_scalar(rng, "f64")) } else { Expr::Var((*rng.pick(&h)).clone()) } }]),
      4 => Expr::Call("ovf".into(), vec![Expr::Lit(gen_scalar(rng, "f64"))]),
      1 => Expr::Call("inc".into(), vec![Expr::Lit(SV::Str("a".into()))]),
      _ => Expr::Call("addtwo".into(), vec![Expr::Lit(gen_scalar(rng, "f64"))]),
    };
  }
  match rng.below(5) {
    0 => Expr::Var("nosuchvar".into()),
    1 => Expr::LitOp(SV::f64(1.0), Bop::Add, SV::Str("a".into())),
    2 => Expr::LitOp(SV::Int(NK::U8, 1), Bop::Sub, SV::Int(NK::U8, 2)),
    3 => Expr::LitOp(SV::Int(NK::I64, 7), Bop::Div, SV::Int(NK::I64, 0)),
    _ => {
      let mats = names_where(m, |b| b.v.is_matrix());
      if mats.is_empty() { return Expr::VarOp("nosuchvar".into(), Bop::Add, SV::f64(1.0)); }
      let n = (*rng.pick(&mats)).clone();
      let _ = k;
      Expr::VarIdx(n, Sub::One(Ix::S(99)))
    }
  }
}

pub fn next_op(rng: &mut Rng, k: &Knobs, m: &Model) -> Op {
  let fault = rng.below(1000) < k.fault_pm as u64;
  let undefined = nosuchvars(k, m);
  let defined: Vec<&String> = m.store.keys().collect();
  // too few names: define something
  if defined.len() < 1 || (defined.len() < 2 && rng.chance(1, 2)) {
    return gen_define(rng, k, m, fault);
  }
  for _ in 0..20 {
    let w = rng.weighted(&k.weights);
    let op = match w {
      0 | 1 => {
        if undefined.is_empty() && !fault { None } else {
          let mut op = gen_define(rng, k, m, fault);
          if let Op::Define { mutable, .. } = &mut op { *mutable = w == 1; }
          Some(op)
        }
      }
      2 => gen_assign(rng, k, m, fault),
      3 => gen_idx_assign(rng, k, m, fault),
      4 => gen_op_assign(rng, k, m, fault, false),
      5 => gen_op_assign(rng, k, m, fault, true),
      6 => gen_field_assign(rng, k, m, fault),
      7 => gen_tuple_assign(rng, k, m, fault),
      8 => gen_destructure(rng, k, m, fault),
      10 => if rng.chance(1, 4) { gen_sel_op_assign(rng, k, m, fault) } else { gen_map_assign(rng, k, m, fault) },
      _ => gen_read(rng, k, m, fault),
    };
    if let Some(op) = op { return op; }
  }
  gen_define(rng, k, m, false)
}

fn gen_define(rng: &mut Rng, k: &Knobs, m: &Model, fault: bool) -> Op {
  let undefined = nosuchvars(k, m);
  let defined: Vec<&String> = m.store.keys().collect();
  let mutable = rng.chance(1, 2);
  if (fault && !defined.is_empty() && rng.chance(1, 2)) || undefined.is_empty() {
    // f1: redefine an existing name
    let name = if defined.is_empty() { k.names[0].clone() } else { (*rng.pick(&defined)).clone() };
    let class = rng.pick(&k.classes).clone();
    // the redefinition comes in every shape a definition can have: plain, kind-annotated (the
    // annotated path has its own save site), from another variable, from an expression
    return match rng.below(6) {
      0 | 1 => {
        let ik = rng.pick(&["u8", "i64", "u16", "i8", "f64", "u32", "i32", "f32"]).to_string();
        if rng.chance(1, 2) { Op::Define { name, mutable, annot: Some(ik), e: Expr::Lit(SV::f64(*rng.pick(&[0.0, 1.0, 2.0, 7.0, 100.0]))) } }
        else { Op::Define { name, mutable, annot: Some(format!("[{}]:1,2", ik)), e: Expr::Lit(SV::Mat("f64".into(), 1, 2, vec![SV::f64(1.0), SV::f64(2.0)])) } }
      }
      2 if !defined.is_empty() => { let src = (*rng.pick(&defined)).clone(); Op::Define { name, mutable, annot: None, e: Expr::Var(src) } }
      3 if !defined.is_empty() => { let src = (*rng.pick(&defined)).clone(); Op::Define { name, mutable, annot: None, e: Expr::VarOp(src, Bop::Add, SV::f64(1.0)) } }
      _ => Op::Define { name, mutable, annot: None, e: Expr::Lit(gen_value(rng, k, &class)) },
    };
  }
  let name = (*rng.pick(&undefined)).clone();
  if fault {
    return match rng.below(3) {
      0 => Op::Define { name, mutable, annot: None, e: failing_source(rng, k, m) },
      1 => Op::Define { name, mutable, annot: Some("u8".into()), e: Expr::Lit(SV::Str("abc".into())) },
      _ => Op::Define { name, mutable, annot: Some("[f64]:1,3".into()), e: Expr::Lit(SV::Mat("f64".into(), 1, 2, vec![SV::f64(1.0), SV::f64(2.0)])) },
    };
  }
  // a container written with variables among its elements (it must hold their values, not the variables)
  if !defined.is_empty() && rng.chance(1, 8) {
    if let Some(e) = built_source(rng, k, m) { return Op::Define { name, mutable, annot: None, e }; }
  }
  // sources: literal | another variable (aliasing candidates) | expression over a variable | field / element
  let choice = rng.below(10);
  if choice < 4 && !defined.is_empty() {
    let src = (*rng.pick(&defined)).clone();
    let b = &m.store[&src];
    let e = match (&b.v, rng.below(4)) {
      (SV::Record(f), 0) => Expr::Field(src, rng.pick(f).0.clone()),
      (SV::Table(_, c), 0) => Expr::Field(src, rng.pick(c).0.clone()),
      (SV::Tuple(el), 0) => Expr::TupElem(src, 1 + rng.usize(el.len())),
      (SV::Map(kv), 0) if !kv.is_empty() => Expr::MapGet(src, rng.pick(kv).0.clone()),
      (SV::Mat(_, r, c, _), 0) => Expr::VarIdx(src, if rng.chance(1, 2) { Sub::One(Ix::S(1 + rng.usize(r * c) as i64)) } else { Sub::Two(Ix::S(1 + rng.usize(*r) as i64), Ix::S(1 + rng.usize(*c) as i64)) }),
      (v, 1) if v.is_scalar() || v.is_matrix() => {
        let ek = match v { SV::Mat(ek, ..) => ek.clone(), s => s.kind_tag() };
        match ek.as_str() {
          "f64" => Expr::VarOp(src, *rng.pick(&[Bop::Add, Bop::Sub, Bop::Mul, Bop::Div]), gen_scalar(rng, "f64")),
          "string" => if v.is_scalar() { Expr::VarOp(src, Bop::Add, gen_scalar(rng, "string")) } else { Expr::Var(src) },
          "bool" => if v.is_scalar() { Expr::VarOp(src, *rng.pick(&[Bop::And, Bop::Or]), gen_scalar(rng, "bool")) } else { Expr::Var(src) },
          kk => Expr::VarOp(src, *rng.pick(&[Bop::Add, Bop::Sub, Bop::Mul, Bop::Div]), gen_scalar(rng, kk)),
        }
      }
      _ => Expr::Var(src),
    };
    // a kind annotation on a definition from a variable: the value passes through a conversion
    // (often to the kind it already has) before it is bound
    let annot = match (&e, &b.v) {
      (Expr::Var(_), SV::Mat(ek, r, c, _)) if rng.chance(1, 3) && NK::from_name(ek).is_some() => {
        let tk = if rng.chance(1, 4) { rng.pick(&["u8", "i64", "f64", "u16"]).to_string() } else { ek.clone() };
        Some(if rng.chance(1, 2) { format!("[{}]", tk) } else { format!("[{}]:{},{}", tk, r, c) })
      }
      (Expr::Var(_), v) if v.is_scalar() && rng.chance(1, 4) => {
        let k0 = v.kind_tag();
        if NK::from_name(&k0).is_some() && rng.chance(1, 4) { Some(rng.pick(&["u8", "i64", "f64", "u16"]).to_string()) } else if k0 == "f64" || k0 == "string" || k0 == "bool" || NK::from_name(&k0).is_some() { Some(k0) } else { None }
      }
      _ => None,
    };
    return Op::Define { name, mutable, annot, e };
  }
  let class = rng.pick(&k.classes).clone();
  if k.functions && choice >= 7 && rng.chance(1, 3) {
    // a function that writes into a mutable copy of its matrix argument
    let mats = names_where(m, |b| matches!(&b.v, SV::Mat(ek, ..) if ek == "f64"));
    if !mats.is_empty() { return Op::Define { name, mutable, annot: None, e: Expr::Call("mutm".into(), vec![Expr::Var((*rng.pick(&mats)).clone())]) }; }
  }
  if k.functions && choice >= 7 && rng.chance(1, 2) { return Op::Define { name, mutable, annot: None, e: call_source(rng, m) }; }
  if choice == 9 && (class == "scalar" || class == "matrix") {
    // annotated define from an f64 literal: conversion at definition time
    let ik = rng.pick(&["u8", "i64", "u16", "i8", "f64", "u32", "u64", "i16", "i32", "f32", "u128", "i128"]).to_string();
    let small = [0.0, 1.0, 2.0, 7.0, 100.0];
    if class == "scalar" {
      return Op::Define { name, mutable, annot: Some(ik), e: Expr::Lit(SV::f64(*rng.pick(&small))) };
    } else {
      let (r, c) = (1 + rng.usize(2), 2 + rng.usize(2));
      let d: Vec<SV> = (0..r * c).map(|_| SV::f64(*rng.pick(&small))).collect();
      // reshaping annotation: same element count, possibly another shape
      let (r2, c2) = if rng.chance(1, 3) { (c, r) } else { (r, c) };
      return Op::Define { name, mutable, annot: Some(format!("[{}]:{},{}", ik, r2, c2)), e: Expr::Lit(SV::Mat("f64".into(), r, c, d)) };
    }
  }
  Op::Define { name, mutable, annot: None, e: Expr::Lit(gen_value(rng, k, &class)) }
}

fn pick_target<'a>(rng: &mut Rng, k: &'a Knobs, m: &'a Model, fault: bool, pred: impl Fn(&Binding) -> bool) -> Option<(String, bool)> {
  // returns (name, is_fault_target). Fault targets: undefined (f2) or immutable (f3) names.
  if fault && (if k.profile == "C04" { rng.chance(1, 4) } else { rng.chance(1, 2) }) {
    let undefined = nosuchvars(k, m);
    let immut = names_where(m, |b| !b.mutable && pred(b));
    if !immut.is_empty() && (undefined.is_empty() || rng.chance(2, 3)) { return Some(((*rng.pick(&immut)).clone(), true)); }
    if !undefined.is_empty() { return Some(((*rng.pick(&undefined)).clone(), true)); }
  }
  let muts = names_where(m, |b| b.mutable && pred(b));
  if muts.is_empty() { return None; }
  Some(((*rng.pick(&muts)).clone(), false))
}

fn gen_assign(rng: &mut Rng, k: &Knobs, m: &Model, fault: bool) -> Option<Op> {
  // whole-value assignment to records/tuples/sets/tables is not implemented in Mech (always an
  // error): keep it in the mix, but mostly aim at scalars and matrices
  let structured_ok = rng.chance(1, 5);
  let (name, ft) = pick_target(rng, k, m, fault, |b| structured_ok || b.v.is_scalar() || b.v.is_matrix())?;
  let cur = m.store.get(&name).map(|b| b.v.clone());
  // `x = x`: nothing to compute, and still an assignment — to an immutable x it has to be rejected like any other
  if rng.chance(1, 10) && matches!(&cur, Some(v) if v.is_scalar() || v.is_matrix()) { return Some(Op::Assign { name: name.clone(), e: Expr::Var(name) }); }
  let e = match cur {
    None => Expr::Lit(gen_scalar(rng, "f64")),
    Some(v) => {
      if fault && !ft {
        if rng.chance(1, 2) { failing_source(rng, k, m) } else {
          // f6: a source of another kind
          let ek = match &v { SV::Mat(ek, ..) => ek.clone(), s => s.kind_tag() };
          let ok = other_kind(rng, &ek);
          Expr::Lit(match &v { SV::Mat(_, r, c, _) => SV::Mat(ok.clone(), *r, *c, (0..r * c).map(|_| gen_element(rng, &ok)).collect()), _ => gen_scalar(rng, &ok) })
        }
      } else {
        match &v {
          SV::Mat(ek, r, c, _) => {
            let same: Vec<&String> = names_where(m, |b| matches!(&b.v, SV::Mat(k2, r2, c2, _) if k2 == ek && r2 == r && c2 == c)).into_iter().filter(|n| **n != name).collect();
            if !same.is_empty() && rng.chance(1, 3) { Expr::Var((*rng.pick(&same)).clone()) }
            else if ek == "f64" && rng.chance(1, 4) { Expr::VarOp(name.clone(), *rng.pick(&[Bop::Add, Bop::Mul]), gen_scalar(rng, "f64")) }
            else if !literal_matrix_kind(ek) { Expr::VarOp(name.clone(), *rng.pick(&[Bop::Add, Bop::Mul]), gen_element(rng, ek)) }
            else if rng.chance(1, 8) { Expr::Lit(gen_matrix(rng, ek, k.max_dim)) }
            else { Expr::Lit(SV::Mat(ek.clone(), *r, *c, (0..r * c).map(|_| gen_element(rng, ek)).collect())) }
          }
          s if s.is_scalar() => {
            let kind = s.kind_tag();
            if rng.chance(1, 4) { Expr::VarOp(name.clone(), if kind == "string" { Bop::Add } else if kind == "bool" { Bop::Or } else { *rng.pick(&[Bop::Add, Bop::Sub, Bop::Mul]) }, gen_scalar(rng, &kind)) }
            else { scalar_source(rng, m, &kind) }
          }
          SV::Record(f) => Expr::Lit(SV::Record(f.iter().map(|(n, kk, v)| (n.clone(), kk.clone(), if v.is_scalar() { gen_scalar(rng, kk) } else { v.clone() })).collect())),
          SV::Tuple(el) => Expr::Lit(SV::Tuple(el.iter().map(|x| if x.is_scalar() { gen_scalar(rng, &x.kind_tag()) } else { x.clone() }).collect())),
          other => Expr::Lit(gen_value(rng, k, match other { SV::Set(..) => "set", SV::Table(..) => "table", _ => "scalar" })),
        }
      }
    }
  };
  Some(Op::Assign { name, e })
}

fn gen_idx_assign(rng: &mut Rng, k: &Knobs, m: &Model, fault: bool) -> Option<Op> {
  let (name, ft) = pick_target(rng, k, m, fault, |b| b.v.is_matrix())?;
  let (ek, r, c) = match m.store.get(&name).map(|b| &b.v) { Some(SV::Mat(ek, r, c, _)) => (ek.clone(), *r, *c), _ => ("f64".to_string(), 1, 3) };
  // C04's own rejections (target out of range, source kind) get most of the faults in its profile
  let fk = if fault && !ft { if k.profile == "C04" { *rng.pick(&[0u64, 0, 0, 1, 1, 2, 3]) } else { rng.below(4) } } else { 99 };
  let vector_src = (rng.chance(1, 4) || fk == 3) && fk != 1 && literal_matrix_kind(&ek);
  let sub = gen_sub(rng, r, c, fk == 0, vector_src);
  // index held in a variable
  let sub = match (&sub, rng.chance(1, 6)) {
    (Sub::One(Ix::V(_)), true) | (Sub::One(Ix::S(_)), true) | (Sub::One(Ix::M(_)), true) => {
      let integral = |v: &SV| v.as_f64().map(|x| x == x.trunc() && x >= 1.0).unwrap_or(false);
      let holders = names_where(m, |b| integral(&b.v) || matches!(&b.v, SV::Mat(e, r1, c1, d) if (*r1 == 1 || *c1 == 1) && ((e == "f64" && d.iter().all(|x| integral(x))) || (e == "bool" && d.len() == r * c))));
      let holders: Vec<&String> = holders.into_iter().filter(|n| **n != name).collect();
      if holders.is_empty() { sub } else { Sub::One(Ix::Var((*rng.pick(&holders)).clone())) }
    }
    _ => sub,
  };
  let e = if fk == 1 {
    // f6: source of a kind the matrix cannot hold
    let ok = other_kind(rng, &ek);
    Expr::Lit(gen_scalar(rng, &ok))
  } else if fk == 2 {
    failing_source(rng, k, m)
  } else if vector_src && matches!(super::model::resolve(&sub, r, c, &m.store), Ok(ref p) if !p.is_empty()) {
    let n = super::model::resolve(&sub, r, c, &m.store).unwrap().len();
    // fault: a source with fewer elements than the index list addresses (fails after the first
    // elements if nothing checks the lengths first)
    let n = if fault && n >= 2 && rng.chance(1, 2) { 1 + rng.usize(n - 1) } else { n };
    // the source may also be a vector held in another variable (of the right length, or — as a fault — a shorter one)
    // the target itself may be the source (`x[[2 3 4 1]] = x`): the i-th source element is the one x held BEFORE the statement
    let keep_self = rng.chance(1, 2);
    let holders: Vec<&String> = names_where(m, |b| matches!(&b.v, SV::Mat(e2, r2, c2, d2) if *e2 == ek && (*r2 == 1 || *c2 == 1) && d2.len() == n)).into_iter().filter(|h| **h != name || (!fault && keep_self)).collect();
    if !holders.is_empty() && rng.chance(1, 2) { Expr::Var((*rng.pick(&holders)).clone()) } else { Expr::Lit(gen_vec_rand(rng, &ek, n)) }
  } else if fk == 99 && literal_matrix_kind(&ek) && matches!(sub, Sub::Two(..)) && rng.chance(1, 4) {
    // a matrix (or vector) source for a two-position form: one source element per addressed one
    match &sub {
      Sub::Two(i, j) => {
        let nr = super::model::resolve(&Sub::One(i.clone()), r, 1, &m.store).map(|p| p.len()).unwrap_or(0);
        let nc = super::model::resolve(&Sub::One(j.clone()), c, 1, &m.store).map(|p| p.len()).unwrap_or(0);
        if nr >= 1 && nc >= 1 && nr * nc >= 2 { Expr::Lit(SV::Mat(ek.clone(), nr, nc, (0..nr * nc).map(|_| gen_element(rng, &ek)).collect())) } else { scalar_source(rng, m, &ek) }
      }
      _ => scalar_source(rng, m, &ek),
    }
  } else {
    scalar_source(rng, m, &ek)
  };
  Some(Op::IdxAssign { name, sub, e })
}

fn gen_op_assign(rng: &mut Rng, k: &Knobs, m: &Model, fault: bool, indexed: bool) -> Option<Op> {
  let arith = |b: &Binding| match &b.v { SV::Mat(ek, ..) => NK::from_name(ek).is_some(), s => s.is_scalar() && NK::from_name(&s.kind_tag()).is_some() };
  // `tb += r`: a record (held in a variable, or a literal) appended to a table as a new row; as a
  // fault a record of another schema
  if !indexed && rng.chance(1, 5) {
    let tables = names_where(m, |b| matches!(b.v, SV::Table(..)) && (b.mutable || fault));
    if !tables.is_empty() {
      let name = (*rng.pick(&tables)).clone();
      let cols = match m.store.get(&name).map(|b| b.v.clone()) { Some(SV::Table(_, c)) => c, _ => vec![] };
      let fits = |f: &Vec<(String, String, SV)>| f.len() == cols.len() && cols.iter().all(|(cn, ck, _)| f.iter().any(|(n, kd, v)| n == cn && kd == ck && v.is_scalar()));
      let holders = names_where(m, |b| matches!(&b.v, SV::Record(f) if fits(f)));
      // `tb += tb2`: the rows of another table of the same schema (held in a variable)
      let other_tables = names_where(m, |b| matches!(&b.v, SV::Table(_, c2) if c2.len() == cols.len() && cols.iter().zip(c2.iter()).all(|(x, y)| x.0 == y.0 && x.1 == y.1)));
      let other_tables: Vec<&String> = other_tables.into_iter().filter(|t| **t != name).collect();
      if !other_tables.is_empty() && rng.chance(1, 3) { return Some(Op::OpAssign { name, sub: None, op: Bop::Add, e: Expr::Var((*rng.pick(&other_tables)).clone()) }); }
      let e = if fault && rng.chance(1, 2) { Expr::Lit(SV::Record(vec![("a".to_string(), "f64".to_string(), gen_scalar(rng, "f64")), ("zz".to_string(), "f64".to_string(), gen_scalar(rng, "f64"))])) }
        else if !holders.is_empty() && rng.chance(3, 4) { Expr::Var((*rng.pick(&holders)).clone()) }
        else { Expr::Lit(SV::Record(cols.iter().map(|(cn, ck, _)| (cn.clone(), ck.clone(), gen_scalar(rng, ck))).collect())) };
      return Some(Op::OpAssign { name, sub: None, op: Bop::Add, e });
    }
  }
  let (name, ft) = if indexed { pick_target(rng, k, m, fault, |b| b.v.is_matrix() && arith(b))? } else { pick_target(rng, k, m, fault, arith)? };
  let bop = *rng.pick(&[Bop::Add, Bop::Sub, Bop::Mul, Bop::Div]);
  let cur = m.store.get(&name).map(|b| b.v.clone());
  let (ek, r, c, is_mat) = match &cur { Some(SV::Mat(ek, r, c, _)) => (ek.clone(), *r, *c, true), Some(s) => (s.kind_tag(), 1, 1, false), None => ("f64".into(), 1, 1, false) };
  let fk = if fault && !ft { if indexed && k.profile == "C04" { *rng.pick(&[0u64, 0, 0, 1, 2]) } else { rng.below(3) } } else { 99 };
  if indexed {
    let vector_src = rng.chance(1, 4) && fk != 1 && literal_matrix_kind(&ek);
    let mut sub = gen_sub(rng, r, c, fk == 0, vector_src);
    // op-assign with repeated indices is not pinned down by C04: make index vectors distinct
    if let Sub::One(Ix::V(v)) = &mut sub { let mut seen = vec![]; v.retain(|x| { let keep = !seen.contains(x); seen.push(*x); keep }); }
    let e = if fk == 1 { Expr::Lit(scalar_of_other_kind(rng, &ek)) }
      else if fk == 2 { failing_source(rng, k, m) }
      else if vector_src && matches!(super::model::resolve(&sub, r, c, &m.store), Ok(ref p) if !p.is_empty()) {
        let n = super::model::resolve(&sub, r, c, &m.store).unwrap().len();
        // fault: fewer source elements than addressed ones; the source may be held in a variable
        let n = if fault && n >= 2 && rng.chance(1, 3) { 1 + rng.usize(n - 1) } else { n };
        let keep_self = rng.chance(1, 2); // `x[[2 1]] += x`: the source elements are the ones x held before the statement
        let holders: Vec<&String> = names_where(m, |b| matches!(&b.v, SV::Mat(e2, r2, c2, d2) if *e2 == ek && (*r2 == 1 || *c2 == 1) && d2.len() == n)).into_iter().filter(|h| **h != name || (!fault && keep_self)).collect();
        if !holders.is_empty() && rng.chance(1, 2) { Expr::Var((*rng.pick(&holders)).clone()) } else { Expr::Lit(gen_vec_rand(rng, &ek, n)) }
      }
      else { scalar_source(rng, m, &ek) };
    Some(Op::OpAssign { name, sub: Some(sub), op: bop, e })
  } else {
    let e = if fk == 1 { Expr::Lit(scalar_of_other_kind(rng, &ek)) }
      else if fk == 2 || fk == 0 { failing_source(rng, k, m) }
      else if is_mat && literal_matrix_kind(&ek) && rng.chance(1, 3) { Expr::Lit(SV::Mat(ek.clone(), r, c, (0..r * c).map(|_| gen_element(rng, &ek)).collect())) }
      else { scalar_source(rng, m, &ek) };
    Some(Op::OpAssign { name, sub: None, op: bop, e })
  }
}

fn gen_field_assign(rng: &mut Rng, k: &Knobs, m: &Model, fault: bool) -> Option<Op> {
  let (name, ft) = pick_target(rng, k, m, fault, |b| matches!(b.v, SV::Record(_) | SV::Table(..)))?;
  match m.store.get(&name).map(|b| b.v.clone()) {
    Some(SV::Record(f)) => {
      let scalar_fields: Vec<(String, String, SV)> = f.iter().filter(|(_, _, v)| v.is_scalar()).cloned().collect();
      if scalar_fields.is_empty() { return None; }
      let (fname, fkind, _) = rng.pick(&scalar_fields).clone();
      if fault && !ft {
        return Some(match rng.below(3) {
          0 => Op::FieldAssign { name, field: "nosuch".into(), e: Expr::Lit(gen_scalar(rng, "f64")) },
          1 => Op::FieldAssign { name, field: fname, e: Expr::Lit(scalar_of_other_kind(rng, &fkind)) },
          _ => Op::FieldAssign { name, field: fname, e: failing_source(rng, k, m) },
        });
      }
      Some(Op::FieldAssign { name, field: fname, e: scalar_source(rng, m, &fkind) })
    }
    Some(SV::Table(rows, cols)) => {
      let (cname, ckind, _) = rng.pick(&cols).clone();
      if fault && !ft {
        return Some(match rng.below(3) {
          0 => Op::FieldAssign { name, field: "nosuch".into(), e: Expr::Lit(gen_vector_of(rng, &ckind, rows, true)) },
          1 => Op::FieldAssign { name, field: cname, e: Expr::Lit(gen_vector_of(rng, &ckind, rows + 1, true)) },
          _ => Op::FieldAssign { name, field: cname, e: failing_source(rng, k, m) },
        });
      }
      Some(Op::FieldAssign { name, field: cname, e: Expr::Lit(gen_vector_of(rng, &ckind, rows, true)) })
    }
    _ => Some(Op::FieldAssign { name, field: "a".into(), e: Expr::Lit(gen_scalar(rng, "f64")) }),
  }
}

/// f9: forms that parse but reach `todo!()` in the interpreter (`r.f += 1`, `t.1 -= 1`, `m{"a"} *= 2`).
fn gen_sel_op_assign(rng: &mut Rng, k: &Knobs, m: &Model, fault: bool) -> Option<Op> {
  let (name, _) = pick_target(rng, k, m, fault, |b| matches!(&b.v, SV::Record(_) | SV::Tuple(_) | SV::Map(_)))?;
  let sel = match m.store.get(&name).map(|b| b.v.clone()) {
    Some(SV::Record(f)) => format!(".{}", rng.pick(&f).0),
    Some(SV::Tuple(el)) => format!(".{}", 1 + rng.usize(el.len())),
    Some(SV::Map(kv)) if !kv.is_empty() => format!("{{{}}}", render_lit(&rng.pick(&kv).0)),
    _ => ".a".to_string(),
  };
  Some(Op::SelOpAssign { name, sel, op: *rng.pick(&[Bop::Add, Bop::Sub, Bop::Mul, Bop::Div]), e: Expr::Lit(gen_scalar(rng, "f64")) })
}

fn gen_map_assign(rng: &mut Rng, k: &Knobs, m: &Model, fault: bool) -> Option<Op> {
  let (name, ft) = pick_target(rng, k, m, fault, |b| matches!(&b.v, SV::Map(kv) if !kv.is_empty()))?;
  match m.store.get(&name).map(|b| b.v.clone()) {
    Some(SV::Map(kv)) => {
      let (k0, v0) = kv[0].clone();
      let vkind = v0.kind_tag();
      // an existing key (update) or a fresh one (insert)
      let key = if rng.chance(1, 2) { rng.pick(&kv).0.clone() } else { match &k0 { SV::Str(_) => SV::Str(rng.pick(&["a", "b", "c", "d", "k"]).to_string()), _ => SV::f64((1 + rng.usize(6)) as f64) } };
      if fault && !ft {
        return Some(match rng.below(3) {
          0 => Op::MapAssign { name, key, e: Expr::Lit(scalar_of_other_kind(rng, &vkind)) },
          1 => Op::MapAssign { name, key: match &k0 { SV::Str(_) => SV::f64(1.0), _ => SV::Str("a".into()) }, e: Expr::Lit(gen_scalar(rng, &vkind)) },
          _ => Op::MapAssign { name, key, e: failing_source(rng, k, m) },
        });
      }
      Some(Op::MapAssign { name, key, e: scalar_source(rng, m, &vkind) })
    }
    _ => Some(Op::MapAssign { name, key: SV::Str("a".into()), e: Expr::Lit(gen_scalar(rng, "f64")) }),
  }
}

fn gen_tuple_assign(rng: &mut Rng, k: &Knobs, m: &Model, fault: bool) -> Option<Op> {
  let (name, ft) = pick_target(rng, k, m, fault, |b| matches!(b.v, SV::Tuple(_)))?;
  match m.store.get(&name).map(|b| b.v.clone()) {
    Some(SV::Tuple(el)) => {
      let scalar_pos: Vec<usize> = (0..el.len()).filter(|i| el[*i].is_scalar()).collect();
      if scalar_pos.is_empty() { return None; }
      let pos = 1 + *rng.pick(&scalar_pos);
      let kind = el[pos - 1].kind_tag();
      if fault && !ft {
        return Some(match rng.below(3) {
          0 => Op::TupAssign { name, pos: el.len() + 1 + rng.usize(2), e: Expr::Lit(gen_scalar(rng, "f64")) },
          1 => Op::TupAssign { name, pos, e: Expr::Lit(scalar_of_other_kind(rng, &kind)) },
          _ => Op::TupAssign { name, pos, e: failing_source(rng, k, m) },
        });
      }
      Some(Op::TupAssign { name, pos, e: scalar_source(rng, m, &kind) })
    }
    _ => Some(Op::TupAssign { name, pos: 1, e: Expr::Lit(gen_scalar(rng, "f64")) }),
  }
}

fn gen_destructure(rng: &mut Rng, k: &Knobs, m: &Model, fault: bool) -> Option<Op> {
  let undefined = nosuchvars(k, m);
  let tuples = names_where(m, |b| matches!(b.v, SV::Tuple(_)));
  let (e, len) = if !tuples.is_empty() && rng.chance(2, 3) {
    let t = (*rng.pick(&tuples)).clone();
    let len = match &m.store[&t].v { SV::Tuple(el) => el.len(), _ => 2 };
    (Expr::Var(t), len)
  } else {
    let v = gen_value(rng, k, "tuple");
    let len = match &v { SV::Tuple(el) => el.len(), _ => 2 };
    (Expr::Lit(v), len)
  };
  let mut pool: Vec<String> = undefined.iter().map(|s| (*s).clone()).collect();
  // destructuring may introduce names outside the pool so that it stays possible late in a session
  for extra in ["u", "v", "w"] { if !m.store.contains_key(extra) { pool.push(extra.to_string()); } }
  rng.shuffle(&mut pool);
  if fault {
    let defined: Vec<&String> = m.store.keys().collect();
    return Some(match rng.below(3) {
      0 => { // too many names: the first `len` are fresh, the failure strikes after them
        if pool.len() < len + 1 { return None; }
        Op::Destructure { names: pool[..len + 1].to_vec(), e }
      }
      1 => { // collision at position k
        if defined.is_empty() || pool.is_empty() { return None; }
        let mut names: Vec<String> = pool[..len.min(pool.len())].to_vec();
        let p = rng.usize(names.len());
        names[p] = (*rng.pick(&defined)).clone();
        Op::Destructure { names, e }
      }
      _ => { // not a tuple
        if pool.len() < 2 { return None; }
        Op::Destructure { names: pool[..2].to_vec(), e: Expr::Lit(gen_scalar(rng, "f64")) }
      }
    });
  }
  let n = 1 + rng.usize(len);
  if pool.len() < n { return None; }
  Some(Op::Destructure { names: pool[..n].to_vec(), e })
}

fn gen_read(rng: &mut Rng, k: &Knobs, m: &Model, fault: bool) -> Option<Op> {
  let defined: Vec<&String> = m.store.keys().collect();
  if defined.is_empty() { return None; }
  if fault { return Some(Op::Read { e: failing_source(rng, k, m) }); }
  let n = (*rng.pick(&defined)).clone();
  let e = match &m.store[&n].v {
    SV::Mat(_, r, c, _) if rng.chance(2, 3) => Expr::VarIdx(n, gen_sub(rng, *r, *c, false, false)),
    SV::Record(f) if rng.chance(1, 2) => Expr::Field(n, rng.pick(f).0.clone()),
    SV::Tuple(el) if rng.chance(1, 2) => Expr::TupElem(n, 1 + rng.usize(el.len())),
    SV::Map(kv) if !kv.is_empty() && rng.chance(1, 2) => Expr::MapGet(n, rng.pick(kv).0.clone()),
    _ => Expr::Var(n),
  };
  Some(Op::Read { e })
}

/// After a successful indexed write, C04 asks that reading the same index returns what was written.
pub fn readback_of(op: &Op) -> Option<Op> {
  match op {
    Op::IdxAssign { name, sub, .. } | Op::OpAssign { name, sub: Some(sub), .. } => Some(Op::Read { e: Expr::VarIdx(name.clone(), sub.clone()) }),
    _ => None,
  }
}
