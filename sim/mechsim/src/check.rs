//! Generic check driver: batch of runs -> crash confirmation -> known-findings triage ->
//! replay files -> evidence file -> exit code. Worlds plug in through their worker arguments.

use crate::supervisor::*;
use serde_json::{json, Value as J};
use std::collections::{BTreeMap, BTreeSet};
use std::path::{Path, PathBuf};
use std::time::Duration;

pub struct CheckSpec {
  pub property: String,
  pub world: String,
  pub tier: String,
  pub seed: u64,
  pub level: String,
  pub rule: String,
  pub worker_args: Vec<String>,
  pub runs: u64,
  pub budget: Duration,
  pub chunk: u64,
  pub evidence: PathBuf,
  pub replays: PathBuf,
  pub known: PathBuf,
  pub components_real: Vec<String>,
  pub components_stub: Vec<String>,
  pub assumptions: Vec<String>,
  /// probes that must not be zero on the unchanged tree (reported as REACH-GAP, never change the exit code)
  pub expected_reach: Vec<String>,
  pub exhaustive: bool,
  pub extra: J,
}

#[derive(Clone, Debug)]
pub struct Known { pub status: String, pub property: String, pub signature: String, pub what: String }

pub fn load_known(path: &Path) -> Vec<Known> {
  let mut out = vec![];
  if let Ok(s) = std::fs::read_to_string(path) {
    for line in s.lines() {
      if line.trim().is_empty() { continue; }
      if let Ok(j) = serde_json::from_str::<J>(line) {
        out.push(Known {
          status: j["status"].as_str().unwrap_or("").to_string(),
          property: j["property"].as_str().unwrap_or("").to_string(),
          signature: j["signature"].as_str().unwrap_or("").to_string(),
          what: j["what"].as_str().unwrap_or("").to_string(),
        });
      }
    }
  }
  out
}

/// Segment-wise match on '|': a pattern segment "*" matches any one segment; a trailing "**"
/// matches any remaining segments. Everything else must be equal.
pub fn sig_matches(pattern: &str, sig: &str) -> bool {
  let p: Vec<&str> = pattern.split('|').collect();
  let s: Vec<&str> = sig.split('|').collect();
  let mut i = 0;
  while i < p.len() {
    if p[i] == "**" { return true; }
    if i >= s.len() { return false; }
    if p[i] != "*" && p[i] != s[i] {
      // a segment ending in '*' is a prefix pattern for that segment
      match p[i].strip_suffix('*') { Some(pre) if s[i].starts_with(pre) => {}, _ => return false }
    }
    i += 1;
  }
  i == s.len()
}

pub fn known_match<'a>(known: &'a [Known], property: &str, sig: &str) -> Option<&'a Known> {
  known.iter().find(|k| k.status == "known" && k.property == property && sig_matches(&k.signature, sig))
}

fn sanitize(s: &str) -> String {
  s.chars().map(|c| if c.is_ascii_alphanumeric() || c == '-' || c == '_' { c } else { '_' }).take(80).collect()
}

/// Returns the process exit code.
pub fn drive(spec: CheckSpec) -> i32 {
  let jobs = default_jobs();
  println!("[{}] world={} tier={} seed={} runs<={} budget={}s jobs={}", spec.property, spec.world, spec.tier, spec.seed, spec.runs, spec.budget.as_secs(), jobs);
  let agg = match run_batch(spec.worker_args.clone(), 0, spec.runs, jobs, spec.budget, spec.chunk) {
    Ok(a) => a,
    Err(e) => { eprintln!("HARNESS-ERROR: {}", e); return 2; }
  };
  let known = load_known(&spec.known);
  let mut violations: Vec<J> = agg.violations.clone();

  // crash confirmation: re-execute crashed runs alone in fresh workers (at most CONFIRM_CAP of
  // them, side by side: a tree that hangs on every other run must not cost an hour of watchdogs)
  const CONFIRM_CAP: usize = 6;
  let mut harness_trouble = false;
  let mut seen_crash: BTreeSet<u64> = BTreeSet::new();
  let mut to_confirm: Vec<(u64, String)> = vec![];
  for (k, why) in &agg.crashed { if seen_crash.insert(*k) { to_confirm.push((*k, why.clone())); } }
  to_confirm.sort();
  if to_confirm.len() > CONFIRM_CAP {
    println!("NOTE: {} runs killed or hung their worker; the first {} are re-executed alone{}", to_confirm.len(), CONFIRM_CAP, if agg.stopped_by_deaths { " (the batch stopped handing out runs after that many deaths)" } else { "" });
    to_confirm.truncate(CONFIRM_CAP);
  }
  let handles: Vec<_> = to_confirm.into_iter().map(|(k, why)| {
    let bb = format!("/dev/shm/mechsim-blackbox-{}-{}.json", std::process::id(), k);
    let mut wa = spec.worker_args.clone();
    wa.push("--blackbox".into()); wa.push(bb.clone());
    std::thread::spawn(move || { let r = run_single(wa, k); (k, why, bb, r) })
  }).collect();
  for h in handles {
    let (k, why, bb, r) = match h.join() { Ok(x) => x, Err(_) => { harness_trouble = true; continue; } };
    match r {
      Err(why2) => {
        // the worker wrote what it was about to do before it died
        let boxed: J = std::fs::read_to_string(&bb).ok().and_then(|t| serde_json::from_str(&t).ok()).unwrap_or(J::Null);
        let what = boxed["mutation"]["label"].as_str().or_else(|| boxed["doing"].as_str()).map(|s| format!(" while executing: {}", crate::node::trunc(s, 300))).unwrap_or_default();
        let mut replay = if boxed.is_object() { boxed.clone() } else { json!({"world": spec.world, "regenerate": true}) };
        if let Some(o) = replay.as_object_mut() {
          if o.get("regenerate").and_then(|x| x.as_bool()) == Some(true) { o.insert("worker_args".into(), json!(spec.worker_args)); }
          o.insert("seed".into(), json!(spec.seed)); o.insert("run".into(), json!(k)); o.insert("death".into(), json!(why2)); o.insert("first_death".into(), json!(why));
        }
        violations.push(json!({
          "property": spec.property, "class": "host-aborted",
          "signature": format!("host-aborted|process|{}", classify_death(&why2)),
          "summary": format!("run {} killed or hung its worker process twice{}: {}", k, what, why2),
          "replay": replay,
        }));
      }
      Ok(_) => {
        if why.contains("WATCHDOG") {
          // slow under load, fine alone: not a verdict and not a harness fault
          println!("NOTE: run {} exceeded the wall-clock backstop under load but completes when re-executed alone", k);
        } else {
          eprintln!("HARNESS-ERROR: run {} killed a worker ({}) but survived when re-executed alone", k, why);
          harness_trouble = true;
        }
      }
    }
    std::fs::remove_file(&bb).ok();
  }

  // replay files describe this run only: drop those of earlier runs of the same check
  if let Ok(rd) = std::fs::read_dir(&spec.replays) { for e in rd.flatten() { if e.path().extension().map(|x| x == "json").unwrap_or(false) { std::fs::remove_file(e.path()).ok(); } } }
  std::fs::create_dir_all(&spec.replays).ok();
  let mut exit = 0;
  let mut known_hit: BTreeMap<String, u64> = BTreeMap::new();
  let mut reported: BTreeSet<String> = BTreeSet::new();
  let mut n_viol = 0u64;
  let mut n_foreign = 0u64;
  for v in &violations {
    let sig = v["signature"].as_str().unwrap_or("").to_string();
    let props: Vec<String> = match v["properties"].as_array() { Some(a) => a.iter().filter_map(|x| x.as_str().map(|s| s.to_string())).collect(), None => vec![v["property"].as_str().unwrap_or(&spec.property).to_string()] };
    if !props.contains(&spec.property) { n_foreign += 1; continue; }
    if let Some(k) = known_match(&known, &spec.property, &sig) {
      *known_hit.entry(format!("{} [{}]", k.what, k.signature)).or_insert(0) += 1;
      continue;
    }
    n_viol += 1;
    if !reported.insert(sig.clone()) { continue; }
    if reported.len() > 25 { continue; }
    // two signatures may share their first 80 characters: a short digest keeps the files apart
    let sig_digest = { let mut d = crate::rng::Digest::new(); d.str(&sig); d.finish() & 0xffff };
    let path = spec.replays.join(format!("{}-{}-{}-{:04x}.json", spec.world, spec.seed, sanitize(&sig), sig_digest));
    let mut replay = v["replay"].clone();
    if let Some(o) = replay.as_object_mut() { o.insert("property".into(), json!(spec.property)); o.insert("signature".into(), json!(sig)); }
    std::fs::write(&path, serde_json::to_string_pretty(&replay).unwrap()).ok();
    // replay in a fresh process must fail the same way
    let confirmed = if sig.starts_with("host-aborted|process|") { true } else { confirm_replay(&path, &sig) };
    if !confirmed && sig.ends_with("|hang") {
      // a wall-clock verdict is believed only if it repeats alone in a fresh process
      println!("NOTE: a run exceeded its wall-clock bound under load but not when replayed alone ({}); not a verdict", path.display());
      std::fs::remove_file(&path).ok();
      n_viol -= 1;
      reported.remove(&sig);
      continue;
    }
    println!("VIOLATION property={} replay={}", spec.property, path.display());
    println!("  signature: {}", sig);
    println!("  {}", v["summary"].as_str().unwrap_or(""));
    if !confirmed { println!("  (note: fresh-process replay did not reproduce the same signature)"); }
    exit = 1;
  }
  for (what, n) in &known_hit {
    println!("KNOWN-FINDING: property={} {} (hit {} times)", spec.property, what, n);
  }

  // reach
  let mut gaps = vec![];
  for probe in &spec.expected_reach {
    if agg.counters.get(probe).copied().unwrap_or(0) == 0 { println!("REACH-GAP {} {}", spec.world, probe); gaps.push(probe.clone()); }
  }

  let faults: BTreeMap<String, u64> = agg.counters.iter().filter(|(k, _)| k.starts_with("fault:")).map(|(k, v)| (k[6..].to_string(), *v)).collect();
  let reach: BTreeMap<String, u64> = agg.counters.iter().filter(|(k, _)| k.starts_with("reach:")).map(|(k, v)| (k[6..].to_string(), *v)).collect();
  let other: BTreeMap<String, u64> = agg.counters.iter().filter(|(k, _)| !k.starts_with("reach:") && !k.starts_with("fault:")).map(|(k, v)| (k.clone(), *v)).collect();
  let sets: BTreeMap<String, usize> = agg.sets.iter().map(|(k, v)| (k.clone(), v.len())).collect();
  let runs_per_hour = if agg.wall_s > 0.0 { (agg.runs as f64 / agg.wall_s * 3600.0) as u64 } else { 0 };
  let mut coverage = json!({
    "evaluations": agg.runs,
    "distinct_nontrivial": agg.nontrivial_digests.len(),
    "rule": spec.rule,
    "samples": agg.samples,
    "exhaustive": spec.exhaustive,
    "runs_per_hour": runs_per_hour,
    "seeds": {"verif_seed": spec.seed, "first_run": 0, "last_run": agg.runs.saturating_sub(1), "note": "run k uses PRNG stream split(VERIF_SEED, world, k): one (seed, k) pair is one exactly repeatable execution"},
    "logical_steps": other.get("steps").copied().unwrap_or(0),
    "distinct_event_logs": agg.digests.len(),
    "distinct_states": agg.state_digests.len(),
    "faults_fired": faults,
    "reach": reach,
    "counters": other,
    "distinct_sets": sets,
    "set_samples": agg.sets.iter().map(|(k, v)| (k.clone(), v.iter().take(12).cloned().collect::<Vec<_>>())).collect::<BTreeMap<String, Vec<String>>>(),
    "reach_gaps": gaps,
    "components": {"real": spec.components_real, "stub": spec.components_stub},
    "known_findings_hit": known_hit,
    "foreign_observations": n_foreign,
    "stopped_by_clock": agg.stopped_by_clock,
    "stopped_by_worker_deaths": agg.stopped_by_deaths,
    "worker_deaths": agg.crashed.len(),
    "jobs": jobs,
  });
  if let (Some(c), Some(e)) = (coverage.as_object_mut(), spec.extra.as_object()) { for (k, v) in e { c.insert(k.clone(), v.clone()); } }
  let evidence = json!({
    "property_id": spec.property,
    "tier": spec.tier,
    "seed": spec.seed,
    "level": spec.level,
    "coverage": coverage,
    "assumptions": spec.assumptions,
    "wall_s": agg.wall_s,
    "violations": n_viol,
  });
  if let Some(dir) = spec.evidence.parent() { std::fs::create_dir_all(dir).ok(); }
  if let Err(e) = std::fs::write(&spec.evidence, serde_json::to_string_pretty(&evidence).unwrap()) { eprintln!("HARNESS-ERROR: cannot write evidence: {}", e); return 2; }
  println!("[{}] runs={} distinct_nontrivial={} distinct_states={} wall={:.1}s violations={} known_hits={} foreign={}", spec.property, agg.runs, agg.nontrivial_digests.len(), agg.state_digests.len(), agg.wall_s, n_viol, known_hit.values().sum::<u64>(), n_foreign);
  if exit == 0 && harness_trouble { return 2; }
  if exit == 0 && agg.runs == 0 { eprintln!("HARNESS-ERROR: no runs executed"); return 2; }
  exit
}

fn classify_death(why: &str) -> String {
  if why.contains("ALLOC-REFUSED") { "allocation-refused".into() }
  else if why.contains("WATCHDOG") { "watchdog".into() }
  else if why.contains("stack overflow") || why.contains("SIGSEGV") || why.contains("signal: 11") { "segv-or-stack-overflow".into() }
  else if why.contains("signal: 6") || why.contains("SIGABRT") { "abort".into() }
  else { "died".into() }
}

fn confirm_replay(path: &Path, sig: &str) -> bool {
  let exe = match std::env::current_exe() { Ok(e) => e, Err(_) => return false };
  match std::process::Command::new(exe).arg("replay").arg(path).output() {
    Ok(o) => {
      let out = String::from_utf8_lossy(&o.stdout);
      o.status.code() == Some(1) && out.contains(sig)
    }
    Err(_) => false,
  }
}
