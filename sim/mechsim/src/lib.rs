pub mod alloc;
pub mod check;
pub mod hashseed;
pub mod node;
pub mod rng;
pub mod supervisor;
pub mod sv;
pub mod w1;
