//! Program corpus: the repository's own test snippets, harvested at run time from
//! /repo/tests/*.rs (second macro argument), plus a small operator/kind/shape sampler.
//! Deterministic order; used by W2 (replicas) and W3 (bytecode pipeline).

/// Parse one Rust string literal starting at `s[i..]` (either "…" with escapes or r#"…"#).
/// Returns (value, index after the literal).
fn rust_string_literal(s: &[u8], mut i: usize) -> Option<(String, usize)> {
  if i >= s.len() { return None; }
  if s[i] == b'r' {
    let mut j = i + 1;
    let mut hashes = 0;
    while j < s.len() && s[j] == b'#' { hashes += 1; j += 1; }
    if j >= s.len() || s[j] != b'"' { return None; }
    j += 1;
    let start = j;
    loop {
      if j >= s.len() { return None; }
      if s[j] == b'"' {
        let mut k = j + 1; let mut h = 0;
        while k < s.len() && s[k] == b'#' && h < hashes { h += 1; k += 1; }
        if h == hashes { return Some((String::from_utf8_lossy(&s[start..j]).to_string(), k)); }
      }
      j += 1;
    }
  }
  if s[i] != b'"' { return None; }
  i += 1;
  let mut out: Vec<u8> = vec![];
  while i < s.len() {
    match s[i] {
      b'"' => return Some((String::from_utf8_lossy(&out).to_string(), i + 1)),
      b'\\' => {
        i += 1;
        if i >= s.len() { return None; }
        match s[i] {
          b'n' => out.push(b'\n'), b't' => out.push(b'\t'), b'r' => out.push(b'\r'), b'0' => out.push(0),
          b'\\' => out.push(b'\\'), b'"' => out.push(b'"'), b'\'' => out.push(b'\''),
          b'\n' => { // line continuation: skip following whitespace
            while i + 1 < s.len() && (s[i + 1] == b' ' || s[i + 1] == b'\t' || s[i + 1] == b'\n' || s[i + 1] == b'\r') { i += 1; }
          }
          b'u' => {
            // \u{XXXX}
            if i + 1 < s.len() && s[i + 1] == b'{' {
              let mut j = i + 2; let mut v: u32 = 0;
              while j < s.len() && s[j] != b'}' { v = v * 16 + (s[j] as char).to_digit(16).unwrap_or(0); j += 1; }
              if let Some(c) = char::from_u32(v) { let mut b = [0u8; 4]; out.extend_from_slice(c.encode_utf8(&mut b).as_bytes()); }
              i = j;
            }
          }
          b'x' => {
            if i + 2 < s.len() { let v = u8::from_str_radix(&String::from_utf8_lossy(&s[i + 1..i + 3]), 16).unwrap_or(b'?'); out.push(v); i += 2; }
          }
          c => { out.push(b'\\'); out.push(c); }
        }
        i += 1;
      }
      c => { out.push(c); i += 1; }
    }
  }
  None
}

pub fn harvest_file(path: &str) -> Vec<(String, String)> {
  let text = match std::fs::read(path) { Ok(t) => t, Err(_) => return vec![] };
  let mut out = vec![];
  for mac in ["test_interpreter!(", "bytecode_test!("] {
    let m = mac.as_bytes();
    let mut i = 0;
    while i + m.len() < text.len() {
      if &text[i..i + m.len()] == m {
        // skip the macro_rules definition itself ("macro_rules! name")
        let mut j = i + m.len();
        // name
        while j < text.len() && (text[j] as char).is_whitespace() { j += 1; }
        let ns = j;
        while j < text.len() && ((text[j] as char).is_alphanumeric() || text[j] == b'_') { j += 1; }
        let name = String::from_utf8_lossy(&text[ns..j]).to_string();
        while j < text.len() && ((text[j] as char).is_whitespace() || text[j] == b',') { j += 1; }
        if !name.is_empty() {
          if let Some((lit, end)) = rust_string_literal(&text, j) { out.push((name, lit)); i = end; continue; }
        }
      }
      i += 1;
    }
  }
  out
}

/// Operator/kind/shape sampler so that every constant kind and instruction form occurs.
pub fn sampler() -> Vec<(String, String)> {
  let mut out: Vec<(String, String)> = vec![];
  let kinds = ["u8", "u16", "u32", "u64", "u128", "i8", "i16", "i32", "i64", "i128", "f32", "f64"];
  for k in kinds {
    for (opn, op) in [("add", "+"), ("sub", "-"), ("mul", "*"), ("div", "/")] {
      out.push((format!("sampler_{}_{}_scalar", opn, k), format!("x := 6<{k}>; y := 3<{k}>; z := x {op} y")));
      out.push((format!("sampler_{}_{}_vec", opn, k), format!("x<[{k}]:1,3> := [6 4 2]; y<{k}> := 2; z := x {op} y")));
    }
    for (opn, op) in [("gt", ">"), ("lt", "<"), ("eq", "=="), ("neq", "!=")] {
      out.push((format!("sampler_{}_{}", opn, k), format!("x := 6<{k}>; y := 3<{k}>; z := x {op} y")));
    }
    out.push((format!("sampler_define_{}_mat", k), format!("m<[{k}]:2,2> := [1 2; 3 4]")));
    out.push((format!("sampler_index_{}", k), format!("m<[{k}]:2,3> := [1 2 3; 4 5 6]; a := m[2,3]; b := m[1,:]; c := m[:,2]")));
  }
  for (n, p) in [
    ("sampler_bool_ops", "a := true; b := false; c := a && b; d := a || b; e := !a"),
    ("sampler_string", "a := \"abc\"; b := \"def\"; c := a + b"),
    ("sampler_string_matrix", "m := [\"a\" \"b\"; \"c\" \"d\"]; x := m[2,1]"),
    ("sampler_range", "x := 1..=5; y := 1..5"),
    ("sampler_set", "s := {1, 2, 3}; t := {2, 3, 4}"),
    ("sampler_record", "r := {x: 1, y: \"a\", z: true}; a := r.x"),
    ("sampler_tuple", "t := (1, \"a\", true); a := t.1"),
    ("sampler_table", "t := |x<f64> y<f64>| 1 2 | 3 4 |; c := t.x"),
    ("sampler_assign", "~x := [1 2 3 4]; x[2] = 9; x[[1 3]] = 7; x[1..=2] = 0"),
    ("sampler_assign_2d", "~x := [1 2; 3 4; 5 6]; x[2,1] = 10; x[:,2] = 7; x[1..=2,1] = 9"),
    ("sampler_op_assign", "~x := [1 2 3 4]; x += 1; x[[1 2]] += [5 6]; x[1..=2] *= 2"),
    ("sampler_horzcat", "a := [1 2]; b := [3 4]; c := [a b]; d := [a; b]"),
    ("sampler_transpose", "a := [1 2 3]; b := a'"),
    ("sampler_matmul", "a := [1 2; 3 4]; b := [5 6; 7 8]; c := a ** b"),
    ("sampler_neg", "a := [1 2 3]; b := -a; c := -5"),
    ("sampler_convert", "a<u8> := 200; b<f64> := a; c<string> := 5"),
    ("sampler_stats", "a := [1 2 3 4]; s := stats/sum/row(a)"),
    ("sampler_math_fns", "a := math/sin(1.0); b := math/cos(0.0); c := math/sqrt(16.0)"),
    ("sampler_rational", "a := 1/2; b := 3/4; c := a + b"),
    ("sampler_complex", "a := 1+2i; b := 3+4i; c := a + b"),
    ("sampler_logical_index", "x := [1 2 3 4]; ix := [true false true false]; y := x[ix]"),
    ("sampler_chain", "a := 1; b := a + 1; c := b * 2; d := c - a; e := d / b"),
    ("sampler_enum", "<color> := :red | :green | :blue\nx<color> := :red"),
    ("sampler_atom", "a := :ok"),
    ("sampler_kind_define", "<dist> := <f64>\nd<dist> := 5"),
    ("sampler_nested_record", "r := {a: 1, m: [1 2 3], s: \"x\"}\nq := r.a + 1"),
    ("sampler_map", "m := {\"a\": 1, \"b\": 2}\nv := m{\"a\"}"),
    ("sampler_table_strings", "t := |n<string> v<f64>| \"a\" 1 | \"b\" 2 |\nc := t.v"),
    ("sampler_table_join", "A := |id<u64> a<u64>| 1 10 | 2 20 | 3 30 |\nB := |id<u64> b<u64>| 2 200 | 3 300 | 4 400 |\nJ := A ⋈ B"),
    ("sampler_set_ops", "A := {1, 2, 3}\nB := {2, 3, 4}\nU := A ∪ B\nI := A ∩ B\nD := A ∖ B\nS := A ⊆ B"),
    ("sampler_compare_vec", "a := [1 2 3]\nb := [3 2 1]\nc := a > b\nd := a == b"),
    ("sampler_logic_vec", "a := [true false true]\nb := [false false true]\nc := a && b\nd := a || b"),
    ("sampler_four_rows", "m := [1 2; 3 4; 5 6; 7 8]\nv := [1; 2; 3; 4]"),
    ("sampler_five_pieces", "a := [1 2]\nb := [a a a a a]\nc := [a; a; a; a; a]"),
    ("sampler_big_matrix", "m := [1 2 3 4 5; 6 7 8 9 10; 11 12 13 14 15; 16 17 18 19 20; 21 22 23 24 25]\nt := m'\ns := m + t"),
    ("sampler_range_step", "a := 1..=10\nb := a + 1"),
    ("sampler_index_vectors", "x := [10 20 30 40 50]\na := x[[1 3 5]]\nb := x[2..=4]\nc := x[[true false true false true]]"),
    ("sampler_index_2d", "x := [1 2 3; 4 5 6; 7 8 9]\na := x[[1 3],2]\nb := x[2,[1 3]]\nc := x[1..=2,2..=3]\nd := x[:,[1 2]]"),
    ("sampler_assign_kinds", "~a<[u8]:1,3> := [1 2 3]\na[2] = 9u8\n~b<[i64]:2,2> := [1 2 3 4]\nb[1,2] = 7<i64>\n~c := [\"a\" \"b\"]\nc[1] = \"z\""),
    ("sampler_op_assign_kinds", "~a<[u16]:1,3> := [1 2 3]\na += 1u16\na[[1 2]] *= 2u16\n~b := [1.5 2.5]\nb /= 2\nb[1] -= 1"),
    ("sampler_function", "inc(x<f64>) = z<f64> :=\n    z := x + 1.\ny := inc(5)"),
    ("sampler_fsm", "#C(n<u64>) => <u64>\n  ├ :A(n<u64>)\n  └ :Done(n<u64>).\n\n#C(n<u64>) -> :A(n)\n  :A(n)\n    ├ n > 0u64 -> :A(n - 1u64)\n    └ n == 0u64 -> :Done(7u64)\n  :Done(n) => n.\n\nr := #C(3u64)"),
    ("sampler_strings_many", "a := \"alpha\"\nb := \"β-unicode ✓\"\nc := a + b\nd := [a b; b a]"),
    ("sampler_f32_ops", "a := 1.5<f32>\nb := a * 2<f32>\nm<[f32]:1,3> := [1 2 3]\nn := m + a"),
    ("sampler_wide_ints", "a := 340282366920938463463374607431768211455u128\nb := 5<i128>\nc := b * b"),
    ("sampler_many_consts", "a := 1; b := 2.5; c := \"s\"; d := true; e := [1 2 3]; f := [1; 2]; g := [1 2; 3 4]; h := 7u8; i := 9<i64>"),
  ] { out.push((n.to_string(), p.to_string())); }
  out
}

/// (name, program text), deterministic order.
pub fn load() -> Vec<(String, String)> {
  let repo = std::env::var("MECHSIM_REPO").unwrap_or_else(|_| "/repo".to_string());
  let mut out = harvest_file(&format!("{}/tests/interpreter.rs", repo));
  out.extend(harvest_file(&format!("{}/tests/bytecode.rs", repo)));
  out.extend(sampler());
  // de-duplicate by text, keep first
  let mut seen = std::collections::BTreeSet::new();
  out.retain(|(_, t)| seen.insert(t.clone()));
  out
}
