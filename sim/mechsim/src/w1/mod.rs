pub mod gen;
pub mod model;
pub mod ops;
pub mod run;

use serde_json::{json, Value as J};
use std::collections::BTreeSet;
use std::sync::Arc;

pub fn load_supported(path: &str) -> Arc<BTreeSet<String>> {
  let mut s = BTreeSet::new();
  if let Ok(t) = std::fs::read_to_string(path) {
    for l in t.lines() { let l = l.trim(); if !l.is_empty() && !l.starts_with('#') { s.insert(l.to_string()); } }
  }
  Arc::new(s)
}

/// One generated run, in the common worker result format.
pub fn worker_run(seed: u64, k: u64, profile: &'static str, supported: Arc<BTreeSet<String>>, known_sigs: &[(String, String)], discover: bool) -> J {
  let (plan, res) = run::execute_generated(seed, k, profile, supported.clone(), known_sigs);
  let mut counters = serde_json::Map::new();
  counters.insert("steps".into(), json!(res.stats.ops));
  for (f, n) in &res.stats.faults_fired { counters.insert(format!("fault:{}", f), json!(n)); }
  for (f, n) in &res.stats.reach { counters.insert(format!("reach:{}", f), json!(n)); }
  let fired: u64 = res.stats.faults_fired.values().sum();
  counters.insert("runs_with_fault_fired".into(), json!((fired > 0) as u64));
  let mut violations = vec![];
  for kh in &res.known_hits {
    // known findings travel without replay payload; the parent only counts and prints them
    violations.push(json!({"properties": kh.properties, "class": kh.class, "signature": kh.signature, "summary": format!("run {}: `{}`", k, kh.op_text), "replay": J::Null}));
  }
  if let Some(v) = &res.violation {
    let mine = v.properties.iter().any(|p| p == profile);
    let mut ops = res.ops.clone();
    let mut final_res = None;
    if mine {
      let min = run::minimise(&res.ops, plan.hash_seed, &v.signature, &v.properties, supported.clone(), known_sigs);
      let r2 = run::execute_explicit(min.clone(), plan.hash_seed, v.properties.clone(), supported.clone(), known_sigs);
      if r2.violation.as_ref().map(|x| x.signature == v.signature).unwrap_or(false) { ops = min; final_res = Some(r2); }
    }
    let shown = final_res.as_ref().unwrap_or(&res);
    let vv = shown.violation.as_ref().unwrap_or(v);
    violations.push(json!({
      "properties": v.properties,
      "class": v.class,
      "signature": v.signature,
      "summary": format!("run {}: `{}` — expected {} ; observed {}", k, vv.op_text, crate::node::trunc(&vv.expected, 240), crate::node::trunc(&vv.observed, 240)),
      "replay": run::replay_json(&plan, &ops, shown, res.ops.len()),
    }));
  }
  let sample = if k % 997 == 3 || k < 2 { json!({"run": k, "hash_seed": plan.hash_seed, "session": res.log}) } else { J::Null };
  let mut sets = serde_json::Map::new();
  if discover {
    sets.insert("combos_ok".into(), json!(res.stats.combos_ok));
    sets.insert("combos_err".into(), json!(res.stats.combos_err));
  } else {
    sets.insert("combos_ok".into(), json!(res.stats.combos_ok));
  }
  if !res.stats.not_code.is_empty() { sets.insert("not_code_texts".into(), json!(res.stats.not_code)); }
  json!({
    "digest": res.digest,
    "nontrivial": res.stats.state_changes > 0,
    "state_digests": res.stats.state_digests,
    "counters": counters,
    "sets": sets,
    "violations": violations,
    "sample": sample,
  })
}
