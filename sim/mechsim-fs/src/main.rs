//! W4 — include expansion over a simulated file system (C20).
//!
//! System: `mech::read_mech_source_file(path)` — the real mechfs code — over a directory tree the
//! simulator builds per run on tmpfs. Reference: a textual include expander over the in-memory
//! description of the same tree. Faults are real file-system objects (missing targets,
//! directories in place of files, invalid UTF-8, dangling symlinks, symlink aliases, symlink
//! loops) plus an "editor" actor that changes the tree between two loads of the same root.

use mechsim::check::*;
use mechsim::rng::{Digest, Rng};
use mechsim::*;
use serde::{Deserialize, Serialize};
use serde_json::{json, Value as J};
use std::collections::{BTreeMap, BTreeSet};
use std::path::{Path, PathBuf};
use std::time::Duration;

#[global_allocator]
static GLOBAL: alloc::Counting = alloc::Counting;

const WORLD_ID: u64 = 4;
fn verif_dir() -> String { std::env::var("MECHSIM_VERIF").unwrap_or_else(|_| "/verif".to_string()) }

// -------------------------------------------------------------------------------------------------
// the simulated tree

#[derive(Clone, Debug, Serialize, Deserialize, PartialEq)]
enum Entry {
  /// regular file with this text
  File(String),
  /// regular file that is not valid UTF-8
  Binary(Vec<u8>),
  /// a directory whose name ends in .mec (open succeeds, read fails)
  DirNamedLikeFile,
  /// symbolic link with this target text (relative to the link's directory)
  Symlink(String),
}

/// path (relative to the run's root, '/'-separated, no leading slash) -> entry. Directories are implied.
#[derive(Clone, Debug, Serialize, Deserialize, PartialEq)]
struct Tree { entries: BTreeMap<String, Entry>, dirs: BTreeSet<String> }

#[derive(Clone, Debug, Serialize, Deserialize)]
enum Edit { Write(String, Entry), Remove(String) }

#[derive(Clone, Debug, Serialize, Deserialize)]
struct Scenario {
  tree: Tree,
  root: String,
  /// edits applied before the 2nd, 3rd … load of the same root
  edits: Vec<Vec<Edit>>,
}

// -------------------------------------------------------------------------------------------------
// reference expander (never touches the disk)

#[derive(Clone, Debug, PartialEq)]
enum Expect { Text(String), Circular, IncludeFailed { raw: Option<String> } }

#[derive(Debug)]
enum RefErr { Circular, Failed(Option<String>) }

/// Resolve `raw` from directory `dir` the way canonicalize does: every component must exist,
/// symlinks are followed, `..` pops. Returns the canonical entry path.
fn resolve(tree: &Tree, dir: &str, raw: &str, depth: usize) -> Option<String> {
  if depth > 40 { return None; }
  let mut cur: Vec<String> = if raw.starts_with('/') { vec![] } else { dir.split('/').filter(|s| !s.is_empty()).map(|s| s.to_string()).collect() };
  let comps: Vec<&str> = raw.split('/').filter(|s| !s.is_empty()).collect();
  for (i, c) in comps.iter().enumerate() {
    let last = i + 1 == comps.len();
    match *c {
      "." => {}
      ".." => { if cur.is_empty() { return None; } cur.pop(); }
      name => {
        let mut p = cur.clone(); p.push(name.to_string());
        let key = p.join("/");
        if tree.dirs.contains(&key) { cur = p; continue; }
        match tree.entries.get(&key) {
          None => return None,
          Some(Entry::Symlink(target)) => {
            let r = resolve(tree, &cur.join("/"), target, depth + 1)?;
            if last { return Some(r); }
            // a symlink to a directory in the middle of a path
            if tree.dirs.contains(&r) { cur = r.split('/').map(|s| s.to_string()).collect(); } else { return None; }
          }
          Some(_) => { if last { return Some(key); } else { return None; } }
        }
      }
    }
  }
  let key = cur.join("/");
  if tree.dirs.contains(&key) || key.is_empty() { Some(key) } else { None }
}

fn fence_delim(line: &str) -> Option<(char, usize, usize)> {
  let b = line.as_bytes();
  let mut i = 0;
  while i < b.len() && b[i] == b' ' && i < 4 { i += 1; }
  if i > 3 || i >= b.len() { return None; }
  let m = b[i] as char;
  if m != '`' && m != '~' { return None; }
  let mut j = i;
  while j < b.len() && b[j] as char == m { j += 1; }
  if j - i < 3 { return None; }
  Some((m, j - i, j))
}
fn fence_closes(line: &str, m: char, min: usize) -> bool {
  match fence_delim(line) {
    Some((lm, n, after)) => lm == m && n >= min && line[after..].chars().all(|c| c == ' ' || c == '\t' || c == '\r' || c == '\n'),
    None => false,
  }
}

#[derive(Default, Debug)]
struct RefStats { expansions: BTreeMap<String, u64>, max_depth: usize, fenced_include_lookalikes: u64, dotdot_includes: u64, padded_include_lines: u64, unclosed_fences: u64, crlf_files: u64 }

fn ref_expand(tree: &Tree, canon: &str, active: &mut Vec<String>, st: &mut RefStats) -> Result<String, RefErr> {
  if active.iter().any(|a| a == canon) { return Err(RefErr::Circular); }
  *st.expansions.entry(canon.to_string()).or_insert(0) += 1;
  st.max_depth = st.max_depth.max(active.len() + 1);
  let text = match tree.entries.get(canon) {
    Some(Entry::File(t)) => t.clone(),
    _ => return Err(RefErr::Failed(None)), // directory, binary, or vanished
  };
  active.push(canon.to_string());
  let dir = match canon.rfind('/') { Some(i) => canon[..i].to_string(), None => String::new() };
  let mut out = String::new();
  let mut fence: Option<(char, usize)> = None;
  for line in text.split_inclusive('\n') {
    if let Some((m, n)) = fence {
      out.push_str(line);
      if line.trim().starts_with('{') && line.trim().ends_with(".mec}") { st.fenced_include_lookalikes += 1; }
      if fence_closes(line, m, n) { fence = None; }
      continue;
    }
    if let Some((m, n, _)) = fence_delim(line) { fence = Some((m, n)); out.push_str(line); continue; }
    let (body, nl) = match line.strip_suffix('\n') { Some(b) => (b, "\n"), None => (line, "") };
    let t = body.trim();
    if t.len() >= 2 && t.starts_with('{') && t.ends_with('}') {
      let inner = t[1..t.len() - 1].trim();
      // a stand-alone `{path.mec}` line is ONE brace expression: `{1+1} and {b.mec}` is two, with text
      // between them, and stays literal ("other brace expressions untouched")
      if inner.ends_with(".mec") && !inner.contains('{') && !inner.contains('}') {
        if inner.contains("..") { st.dotdot_includes += 1; }
        if t.len() != body.len() || inner.len() != t.len() - 2 { st.padded_include_lines += 1; }
        let target = match resolve(tree, &dir, inner, 0) { Some(t) => t, None => { return Err(RefErr::Failed(Some(inner.to_string()))); } };
        if tree.dirs.contains(&target) { return Err(RefErr::Failed(None)); }
        let sub = ref_expand(tree, &target, active, st)?;
        out.push_str(&sub);
        out.push_str(nl);
        continue;
      }
    }
    out.push_str(line);
  }
  if fence.is_some() { st.unclosed_fences += 1; }
  if text.contains("\r\n") { st.crlf_files += 1; }
  active.pop();
  Ok(out)
}

/// The reference's answer, or None when both a cycle and a failing include are reachable in an
/// order the property does not fix (then either error class is accepted).
fn reference(tree: &Tree, root: &str, st: &mut RefStats) -> (Expect, bool) {
  let canon = match resolve(tree, "", root, 0) { Some(c) => c, None => return (Expect::IncludeFailed { raw: Some(root.to_string()) }, false) };
  let mut active = vec![];
  let first = match ref_expand(tree, &canon, &mut active, st) {
    Ok(t) => return (Expect::Text(t), false),
    Err(RefErr::Circular) => Expect::Circular,
    Err(RefErr::Failed(raw)) => Expect::IncludeFailed { raw },
  };
  // is the other error class reachable too? (walk the graph ignoring order)
  let both = reachable_errors(tree, &canon);
  (first, both.0 && both.1)
}

/// (a cycle is reachable, a failing include is reachable) over the include graph from `start`.
fn reachable_errors(tree: &Tree, start: &str) -> (bool, bool) {
  fn includes(tree: &Tree, canon: &str) -> Vec<Option<String>> {
    let text = match tree.entries.get(canon) { Some(Entry::File(t)) => t.clone(), _ => return vec![None] };
    let dir = match canon.rfind('/') { Some(i) => canon[..i].to_string(), None => String::new() };
    let mut out = vec![];
    let mut fence: Option<(char, usize)> = None;
    for line in text.split_inclusive('\n') {
      if let Some((m, n)) = fence { if fence_closes(line, m, n) { fence = None; } continue; }
      if let Some((m, n, _)) = fence_delim(line) { fence = Some((m, n)); continue; }
      let t = line.trim();
      if t.len() >= 2 && t.starts_with('{') && t.ends_with('}') {
        let inner = t[1..t.len() - 1].trim();
        if inner.ends_with(".mec") && !inner.contains('{') && !inner.contains('}') { out.push(resolve(tree, &dir, inner, 0).filter(|t| !tree.dirs.contains(t))); }
      }
    }
    out
  }
  let mut cyc = false; let mut fail = false;
  fn dfs(tree: &Tree, n: &str, stack: &mut Vec<String>, seen: &mut BTreeSet<String>, cyc: &mut bool, fail: &mut bool) {
    if stack.iter().any(|s| s == n) { *cyc = true; return; }
    if !matches!(tree.entries.get(n), Some(Entry::File(_))) { *fail = true; return; }
    if !seen.insert(format!("{}|{}", stack.len(), n)) && stack.len() > 8 { return; }
    stack.push(n.to_string());
    for inc in includes(tree, n) { match inc { None => *fail = true, Some(t) => dfs(tree, &t, stack, seen, cyc, fail) } }
    stack.pop();
  }
  dfs(tree, start, &mut vec![], &mut BTreeSet::new(), &mut cyc, &mut fail);
  (cyc, fail)
}

// -------------------------------------------------------------------------------------------------
// generator

const DIRS: [&str; 4] = ["", "sub", "sub/deep", "other"];

fn rel(from_dir: &str, to: &str, rng: &mut Rng) -> String {
  // a relative spelling of `to` (a path from the run root) as seen from `from_dir`
  let from: Vec<&str> = from_dir.split('/').filter(|s| !s.is_empty()).collect();
  let tov: Vec<&str> = to.split('/').collect();
  let mut common = 0;
  while common < from.len() && common + 1 < tov.len() && from[common] == tov[common] { common += 1; }
  let mut parts: Vec<String> = vec![];
  for _ in common..from.len() { parts.push("..".into()); }
  for p in &tov[common..] { parts.push(p.to_string()); }
  let mut s = parts.join("/");
  if rng.chance(1, 6) { s = format!("./{}", s); }
  s
}

fn gen_lines(rng: &mut Rng, includes: &[String], filler: bool) -> String {
  let plain = ["x := 1", "Some prose here.", "y := x + 2", "# heading", "", "a {b.mec} c", "{1+1}", "{foo/bar}", "{x.mech}", "text {inline.mec}", "    {indented-not-code.mec-}", "{ not an include }", "{{double.mec}}", "{a.mec", "b.mec}", "{1+1} and {b.mec}", "{x} {a.mec}", "{a.mec} then {b.mec}", "{a.mec}{b.mec}"];
  let mut lines: Vec<String> = vec![];
  let mut inc: Vec<String> = includes.to_vec();
  let n_extra = if filler { rng.usize(6) } else { 0 };
  for _ in 0..n_extra { lines.push(rng.pick(&plain).to_string()); }
  // fences with content (possibly include-looking) that must stay untouched
  let n_fences = rng.usize(3);
  for _ in 0..n_fences {
    let m = if rng.chance(1, 2) { '`' } else { '~' };
    let n = 3 + rng.usize(3);
    let indent = " ".repeat(rng.usize(4));
    let info = if rng.chance(1, 3) { "mech" } else { "" };
    let mut block = vec![format!("{}{}{}", indent, m.to_string().repeat(n), info)];
    let body_n = 1 + rng.usize(3);
    for _ in 0..body_n {
      match rng.below(5) {
        0 => block.push("{fenced.mec}".to_string()),
        1 => block.push(m.to_string().repeat(n - 1)),                                                                                // false closer: shorter run
        2 => block.push(format!("{} trailing", m.to_string().repeat(n))),                                                          // false closer: trailing text
        3 => block.push(format!("{}", (if m == '`' { '~' } else { '`' }).to_string().repeat(n))),                                  // other marker
        _ => block.push("code line".to_string()),
      }
    }
    let unclosed = rng.chance(1, 8);
    if !unclosed { block.push(format!("{}{}{}", " ".repeat(rng.usize(4)), m.to_string().repeat(n + rng.usize(2)), if rng.chance(1, 4) { "  " } else { "" })); }
    let pos = rng.usize(lines.len() + 1);
    if unclosed { lines.extend(block); } else { for (i, b) in block.into_iter().enumerate() { lines.insert(pos + i, b); } }
  }
  // four-space "fence" that is not a fence
  if rng.chance(1, 6) { let p = rng.usize(lines.len() + 1); lines.insert(p, "    ```".to_string()); }
  // include lines, with whitespace variants; must not land inside a fence: put them before the first fence opener or after the last closer
  let first_fence = lines.iter().position(|l| fence_delim(l).is_some()).unwrap_or(lines.len());
  while let Some(t) = inc.pop() {
    let pad_l = match rng.below(4) { 0 => "  ", 1 => "\t", _ => "" };
    let pad_r = match rng.below(4) { 0 => "  ", 1 => " \t", _ => "" };
    let inner_l = if rng.chance(1, 4) { " " } else { "" };
    let inner_r = if rng.chance(1, 4) { " " } else { "" };
    let line = format!("{}{{{}{}{}}}{}", pad_l, inner_l, t, inner_r, pad_r);
    // two in three land before the first fence (certainly an include); the others anywhere — after a
    // closed fence (the closer has to have been recognised), or inside one (must stay literal): the
    // reference decides from the text which it is
    let pos = if rng.chance(2, 3) { rng.usize(first_fence + 1) } else { rng.usize(lines.len() + 1) };
    lines.insert(pos, line);
  }
  // one file in eight has CRLF line ends (the carriage return of an include line belongs to the
  // line's trailing whitespace; the reference splits at '\n' exactly as for LF files)
  let eol = if rng.chance(1, 8) { "\r\n" } else { "\n" };
  let mut text = lines.join(eol);
  if !lines.is_empty() && rng.chance(3, 4) { text.push_str(eol); }
  text
}

fn gen_scenario(rng: &mut Rng) -> Scenario {
  let n_files = 1 + rng.usize(4);
  let n_dirs = 1 + rng.usize(3);
  let names = ["a.mec", "b.mec", "c.mec", "d.mec"];
  let mut paths: Vec<String> = vec![];
  let mut dirs: BTreeSet<String> = BTreeSet::new();
  for i in 0..n_files {
    let d = DIRS[rng.usize(n_dirs.min(DIRS.len()))];
    let d = if i == 0 && rng.chance(1, 2) { "" } else { d };
    let p = if d.is_empty() { names[i].to_string() } else { format!("{}/{}", d, names[i]) };
    let mut acc = String::new();
    for part in d.split('/').filter(|s| !s.is_empty()) { if !acc.is_empty() { acc.push('/'); } acc.push_str(part); dirs.insert(acc.clone()); }
    paths.push(p);
  }
  // every subset of include edges (with repeats): each ordered pair with probability ~1/3
  let mut tree = Tree { entries: BTreeMap::new(), dirs };
  let mut missing_used = false;
  let fault = rng.below(10); // which fault kind this run carries, if any
  for i in 0..n_files {
    let from_dir = match paths[i].rfind('/') { Some(x) => paths[i][..x].to_string(), None => String::new() };
    let mut incs = vec![];
    for j in 0..n_files {
      let p = if i == j { 12 } else { 3 };
      if rng.chance(1, p) { incs.push(rel(&from_dir, &paths[j], rng)); if rng.chance(1, 5) { incs.push(rel(&from_dir, &paths[j], rng)); } }
    }
    if fault == 0 && !missing_used && rng.chance(1, 2) { incs.push(rel(&from_dir, "nowhere/missing.mec", rng)); missing_used = true; }
    if fault == 1 && !missing_used && rng.chance(1, 2) { incs.push("gone.mec".to_string()); missing_used = true; }
    rng.shuffle(&mut incs);
    let text = gen_lines(rng, &incs, true);
    tree.entries.insert(paths[i].clone(), Entry::File(text));
  }
  // faults as real file-system objects
  let victim = if n_files > 1 { 1 + rng.usize(n_files - 1) } else { 0 };
  match fault {
    2 if n_files > 1 => { tree.entries.insert(paths[victim].clone(), Entry::DirNamedLikeFile); }
    3 if n_files > 1 => { tree.entries.insert(paths[victim].clone(), Entry::Binary(vec![0x66, 0x6f, 0xff, 0xfe, 0x0a, 0xc3, 0x28])); }
    4 if n_files > 1 => { tree.entries.insert(paths[victim].clone(), Entry::Symlink("does-not-exist.mec".into())); }
    5 if n_files > 1 => {
      // symlink alias: victim becomes a link to another file of the graph (a cycle may exist only through canonicalisation)
      let other = rng.usize(n_files);
      if other != victim {
        let from_dir = match paths[victim].rfind('/') { Some(x) => paths[victim][..x].to_string(), None => String::new() };
        let target = rel(&from_dir, &paths[other], rng);
        tree.entries.insert(paths[victim].clone(), Entry::Symlink(target));
      }
    }
    6 if n_files > 1 => {
      // symlink loop
      let name = paths[victim].rsplit('/').next().unwrap().to_string();
      tree.entries.insert(paths[victim].clone(), Entry::Symlink(name));
    }
    _ => {}
  }
  // history: an editor changes the tree between loads of the same root
  let mut edits = vec![];
  let n_loads = 1 + rng.usize(3);
  for _ in 1..n_loads {
    let mut batch = vec![];
    for _ in 0..(1 + rng.usize(2)) {
      let f = rng.usize(n_files);
      match rng.below(4) {
        0 if f != 0 => batch.push(Edit::Remove(paths[f].clone())),
        1 => { let t = gen_lines(rng, &[], true); batch.push(Edit::Write(paths[f].clone(), Entry::File(t))); }
        _ => {
          let from_dir = match paths[f].rfind('/') { Some(x) => paths[f][..x].to_string(), None => String::new() };
          let mut incs = vec![];
          for j in 0..n_files { if rng.chance(1, 3) { incs.push(rel(&from_dir, &paths[j], rng)); } }
          let t = gen_lines(rng, &incs, true);
          batch.push(Edit::Write(paths[f].clone(), Entry::File(t)));
        }
      }
    }
    edits.push(batch);
  }
  Scenario { tree, root: paths[0].clone(), edits }
}

/// The thorough tier's complete walk: three files a/b/c in the root directory, every subset of
/// the nine include edges, crossed with a fence placement.
fn enumerated_scenario(idx: u64) -> Scenario {
  let edges = idx % 512;
  let variant = (idx / 512) % 4;
  let names = ["a.mec", "b.mec", "c.mec"];
  let mut tree = Tree { entries: BTreeMap::new(), dirs: BTreeSet::new() };
  for i in 0..3 {
    let mut lines: Vec<String> = vec![format!("file {}", names[i])];
    for j in 0..3 {
      if (edges >> (i * 3 + j)) & 1 == 1 {
        match variant {
          0 => lines.push(format!("{{{}}}", names[j])),
          1 => { lines.push(format!("  {{ {} }}\t", names[j])); }
          2 => { lines.push("```".into()); lines.push(format!("{{{}}}", names[j])); lines.push("```".into()); lines.push(format!("{{{}}}", names[j])); }
          _ => { lines.push(format!("{{{}}}", names[j])); lines.push("~~~~".into()); lines.push(format!("{{{}}}", names[j])); lines.push("~~~".into()); lines.push("~~~~~".into()); }
        }
      }
    }
    lines.push(format!("end {}", names[i]));
    let mut t = lines.join("\n");
    if variant != 1 { t.push('\n'); }
    tree.entries.insert(names[i].to_string(), Entry::File(t));
  }
  Scenario { tree, root: "a.mec".into(), edits: vec![] }
}

// -------------------------------------------------------------------------------------------------
// the system under test on a real directory

fn materialise(base: &Path, tree: &Tree) {
  std::fs::remove_dir_all(base).ok();
  std::fs::create_dir_all(base).unwrap();
  for d in &tree.dirs { std::fs::create_dir_all(base.join(d)).ok(); }
  for (p, e) in &tree.entries { write_entry(base, p, e); }
}
fn write_entry(base: &Path, p: &str, e: &Entry) {
  let full = base.join(p);
  if let Some(parent) = full.parent() { std::fs::create_dir_all(parent).ok(); }
  if let Ok(md) = std::fs::symlink_metadata(&full) { if md.is_dir() { std::fs::remove_dir_all(&full).ok(); } else { std::fs::remove_file(&full).ok(); } }
  match e {
    Entry::File(t) => { std::fs::write(&full, t).unwrap(); }
    Entry::Binary(b) => { std::fs::write(&full, b).unwrap(); }
    Entry::DirNamedLikeFile => { std::fs::create_dir_all(&full).unwrap(); }
    Entry::Symlink(t) => { std::os::unix::fs::symlink(t, &full).unwrap(); }
  }
}
fn apply_edit(base: &Path, tree: &mut Tree, e: &Edit) {
  match e {
    Edit::Write(p, ent) => { write_entry(base, p, ent); tree.entries.insert(p.clone(), ent.clone()); }
    Edit::Remove(p) => {
      let full = base.join(p);
      if let Ok(md) = std::fs::symlink_metadata(&full) { if md.is_dir() { std::fs::remove_dir_all(&full).ok(); } else { std::fs::remove_file(&full).ok(); } }
      tree.entries.remove(p);
    }
  }
}

#[derive(Clone, Debug, PartialEq)]
enum Observed { Text(String), Err(String, String), Panicked(String), NotAString }

fn load(base: &Path, root: &str) -> Observed {
  let p = base.join(root);
  let r = std::panic::catch_unwind(std::panic::AssertUnwindSafe(|| mech::read_mech_source_file(&p)));
  match r {
    Err(e) => Observed::Panicked(hashseed::panic_message(&e)),
    Ok(Err(e)) => Observed::Err(e.kind_name(), e.kind_message()),
    Ok(Ok(mech::MechSourceCode::String(s))) => Observed::Text(s),
    Ok(Ok(_)) => Observed::NotAString,
  }
}

#[derive(Clone, Debug, Serialize, Deserialize)]
struct Violation { class: String, signature: String, summary: String }

fn judge(exp: &Expect, either_error: bool, obs: &Observed) -> Option<(String, String)> {
  match (exp, obs) {
    (_, Observed::Panicked(m)) => Some(("loader-panicked".into(), format!("read_mech_source_file panicked: {}", node::trunc(m, 120)))),
    (_, Observed::NotAString) => Some(("wrong-source-kind".into(), "a .mec file did not load as source text".into())),
    (Expect::Text(e), Observed::Text(o)) => if e == o { None } else {
      let first = e.bytes().zip(o.bytes()).position(|(a, b)| a != b).unwrap_or(e.len().min(o.len()));
      Some(("expansion-differs".into(), format!("expanded text differs from the textual substitution at byte {}: expected {:?} ; observed {:?}", first, node::trunc(&e[first.saturating_sub(20).min(e.len())..], 80), node::trunc(&o[first.saturating_sub(20).min(o.len())..], 80))))
    },
    (Expect::Text(_), Observed::Err(_, m)) => Some((if m.contains("Circular") { "false-cycle".into() } else { "false-include-failure".into() }, format!("loading failed although the include graph is acyclic and complete: {}", m))),
    (Expect::Circular, Observed::Err(_, m)) if m.contains("Circular include") => None,
    (Expect::IncludeFailed { raw }, Observed::Err(_, m)) if m.contains("Include failed") => match raw {
      Some(r) if !m.contains(r.as_str()) => Some(("error-does-not-name-file".into(), format!("include error does not name the missing file `{}`: {}", r, m))),
      _ => None,
    },
    (Expect::Circular, Observed::Err(_, m)) | (Expect::IncludeFailed { .. }, Observed::Err(_, m)) => {
      if either_error && (m.contains("Circular include") || m.contains("Include failed")) { None }
      else { Some(("wrong-error-class".into(), format!("expected {:?}, observed error: {}", exp, m))) }
    }
    (Expect::Circular, Observed::Text(_)) => Some(("cycle-not-detected".into(), "loading succeeded although the include graph has a cycle".into())),
    (Expect::IncludeFailed { .. }, Observed::Text(_)) => Some(("missing-file-not-reported".into(), "loading succeeded although an included file is missing or unreadable".into())),
  }
}

struct RunOut { digest: u64, nontrivial: bool, counters: BTreeMap<String, u64>, violation: Option<Violation>, log: Vec<String>, scenario: Scenario }

fn bump(m: &mut BTreeMap<String, u64>, k: &str, n: u64) { *m.entry(k.to_string()).or_insert(0) += n; }

fn execute(sc: &Scenario, tag: &str, blackbox: Option<&str>) -> RunOut {
  let base = PathBuf::from(format!("/dev/shm/mechsim-fs-{}/{}", std::process::id(), tag));
  let mut counters = BTreeMap::new();
  let mut log = vec![];
  let mut dig = Digest::new();
  let mut tree = sc.tree.clone();
  materialise(&base, &tree);
  if let Some(bb) = blackbox { std::fs::write(bb, json!({"world": "W4", "scenario": sc}).to_string()).ok(); }
  let mut violation = None;
  let mut nontrivial = false;
  for load_no in 0..=sc.edits.len() {
    if load_no > 0 {
      for e in &sc.edits[load_no - 1] { apply_edit(&base, &mut tree, e); bump(&mut counters, "fault:editor-changed-tree-between-loads", 1); }
    }
    let mut st = RefStats::default();
    let (exp, either) = reference(&tree, &sc.root, &mut st);
    let obs = load(&base, &sc.root);
    bump(&mut counters, "steps", 1);
    if matches!(exp, Expect::Text(_)) {
      if st.expansions.values().any(|n| *n > 1) { bump(&mut counters, "reach:same-file-included-more-than-once", 1); }
      if st.max_depth >= 3 { bump(&mut counters, "reach:include-depth-3-or-more", 1); }
      if st.fenced_include_lookalikes > 0 { bump(&mut counters, "reach:include-looking-line-inside-fence", 1); }
      if st.dotdot_includes > 0 { bump(&mut counters, "reach:include-through-dotdot", 1); }
      if st.padded_include_lines > 0 { bump(&mut counters, "reach:include-line-with-padding", 1); }
      if st.unclosed_fences > 0 { bump(&mut counters, "reach:unclosed-fence", 1); }
      if st.crlf_files > 0 { bump(&mut counters, "reach:crlf-file-expanded", 1); }
      if st.expansions.len() >= 2 { bump(&mut counters, "reach:expansions-with-at-least-one-include", 1); }
    }
    match &exp {
      Expect::Text(t) => { bump(&mut counters, "reach:expect-text", 1); if t.contains("file ") || t.len() > 0 { nontrivial = true; } }
      Expect::Circular => bump(&mut counters, "reach:expect-circular", 1),
      Expect::IncludeFailed { .. } => bump(&mut counters, "reach:expect-include-failed", 1),
    }
    if either { bump(&mut counters, "reach:both-error-classes-reachable", 1); }
    let obs_s = match &obs { Observed::Text(t) => format!("text {} bytes", t.len()), Observed::Err(n, m) => format!("err {} {}", n, node::trunc(m, 40).replace(base.to_str().unwrap_or(""), "<root>")), Observed::Panicked(m) => format!("panicked {}", node::trunc(m, 40)), Observed::NotAString => "not-a-string".into() };
    dig.str(&format!("{:?}", tree.entries.keys().collect::<Vec<_>>()));
    for (_, e) in &tree.entries { dig.str(&format!("{:?}", e)); }
    dig.str(&obs_s);
    log.push(format!("load {}: expected {} ; observed {}", load_no + 1, match &exp { Expect::Text(t) => format!("text {} bytes", t.len()), e => format!("{:?}", e) }, obs_s));
    if let Some((class, summary)) = judge(&exp, either, &obs) {
      let detail = if load_no > 0 { "after-edit" } else { "first-load" };
      violation = Some(Violation { class: class.clone(), signature: format!("{}|{}", class, detail), summary });
      break;
    }
  }
  // fault accounting from the tree description
  for (_, e) in &sc.tree.entries {
    match e {
      Entry::DirNamedLikeFile => bump(&mut counters, "fault:directory-in-place-of-file", 1),
      Entry::Binary(_) => bump(&mut counters, "fault:invalid-utf8", 1),
      Entry::Symlink(t) => { if t == "does-not-exist.mec" { bump(&mut counters, "fault:dangling-symlink", 1) } else if !t.contains('/') && sc.tree.entries.iter().any(|(p, _)| p.ends_with(t.as_str()) && matches!(sc.tree.entries.get(p), Some(Entry::Symlink(x)) if x == t)) { bump(&mut counters, "fault:symlink-loop", 1) } else { bump(&mut counters, "fault:symlink-alias", 1) } }
      Entry::File(t) => { if t.contains("missing.mec") || t.contains("gone.mec") { bump(&mut counters, "fault:missing-target", 1); } }
    }
  }
  std::fs::remove_dir_all(&base).ok();
  RunOut { digest: dig.finish(), nontrivial, counters, violation, log, scenario: sc.clone() }
}

fn minimise(sc: &Scenario, sig: &str, tag: &str) -> Scenario {
  let same = |c: &Scenario| execute(c, tag, None).violation.map(|v| v.signature == sig).unwrap_or(false);
  let mut cur = sc.clone();
  // drop edits, then drop lines of each file one at a time
  while !cur.edits.is_empty() { let mut c = cur.clone(); c.edits.pop(); if same(&c) { cur = c; } else { break; } }
  let keys: Vec<String> = cur.tree.entries.keys().cloned().collect();
  for k in keys {
    loop {
      let text = match cur.tree.entries.get(&k) { Some(Entry::File(t)) => t.clone(), _ => break };
      let lines: Vec<&str> = text.split_inclusive('\n').collect();
      let mut reduced = false;
      for i in 0..lines.len() {
        let mut l2 = lines.clone(); l2.remove(i);
        let mut c = cur.clone(); c.tree.entries.insert(k.clone(), Entry::File(l2.concat()));
        if same(&c) { cur = c; reduced = true; break; }
      }
      if !reduced { break; }
    }
  }
  cur
}

fn worker_run(seed: u64, k: u64, thorough: bool, blackbox: Option<&str>) -> J {
  let enumerated = thorough && k < 2048;
  let sc = if enumerated { enumerated_scenario(k) } else { let mut rng = Rng::for_run(seed, WORLD_ID * 16, k); gen_scenario(&mut rng) };
  let tag = format!("{}", k);
  let out = execute(&sc, &tag, blackbox);
  let mut counters = out.counters.clone();
  if enumerated { bump(&mut counters, "enumerated-three-file-graphs", 1); }
  let violations: Vec<J> = out.violation.iter().map(|v| {
    let min = minimise(&sc, &v.signature, &format!("{}-min", k));
    let o2 = execute(&min, &format!("{}-min", k), None);
    let (fsc, fo) = if o2.violation.as_ref().map(|x| x.signature == v.signature).unwrap_or(false) { (min, o2) } else { (sc.clone(), execute(&sc, &tag, None)) };
    let vv = fo.violation.clone().unwrap_or(v.clone());
    json!({"properties": ["C20"], "class": v.class, "signature": v.signature, "summary": format!("run {}: {}", k, vv.summary),
      "replay": {"world": "W4", "seed": seed, "run": k, "scenario": fsc, "event_log": fo.log, "violation": vv, "faults": describe_faults(&fsc)}})
  }).collect();
  let sample = if k % 4001 == 5 || k == 0 { json!({"run": k, "scenario": out.scenario, "event_log": out.log}) } else { J::Null };
  json!({"digest": out.digest, "nontrivial": out.nontrivial, "state_digests": [], "counters": counters, "sets": {}, "violations": violations, "sample": sample})
}

fn describe_faults(sc: &Scenario) -> Vec<String> {
  let mut v = vec![];
  for (p, e) in &sc.tree.entries { match e { Entry::File(_) => {}, other => v.push(format!("{}: {:?}", p, other)) } }
  for (i, b) in sc.edits.iter().enumerate() { v.push(format!("before load {}: {} edit(s)", i + 2, b.len())); }
  v
}

// -------------------------------------------------------------------------------------------------
// CLI

fn arg<'a>(args: &'a [String], name: &str) -> Option<&'a str> { args.iter().position(|a| a == name).and_then(|i| args.get(i + 1)).map(|s| s.as_str()) }
fn flag(args: &[String], name: &str) -> bool { args.iter().any(|a| a == name) }

fn main() {
  let args: Vec<String> = std::env::args().collect();
  let code = match args.get(1).map(|s| s.as_str()) {
    Some("worker") => {
      node::install_silent_panic_hook();
      supervisor::limit_address_space(16 << 30);
      let seed: u64 = arg(&args, "--seed").and_then(|s| s.parse().ok()).unwrap_or(1);
      let thorough = flag(&args, "--thorough");
      let bb = arg(&args, "--blackbox").map(|s| s.to_string());
      supervisor::worker_loop(|k| worker_run(seed, k, thorough, bb.as_deref()));
      0
    }
    Some("check") => check_cmd(&args[2..]),
    Some("replay") => replay_cmd(&args[2..]),
    Some("digests") => {
      let runs: u64 = arg(&args, "--runs").and_then(|s| s.parse().ok()).unwrap_or(200);
      let seed: u64 = arg(&args, "--seed").and_then(|s| s.parse().ok()).or_else(|| std::env::var("VERIF_SEED").ok().and_then(|s| s.parse().ok())).unwrap_or(1);
      let jobs: usize = arg(&args, "--jobs").and_then(|s| s.parse().ok()).unwrap_or(supervisor::default_jobs());
      let wargs: Vec<String> = vec!["worker".into(), "--seed".into(), seed.to_string()];
      match supervisor::run_batch(wargs, 0, runs, jobs, Duration::from_secs(3600), 8) {
        Ok(a) => { let mut d = a.digest_log.clone(); d.sort(); for (k, x) in d { println!("{} {:016x}", k, x); } 0 }
        Err(e) => { eprintln!("{}", e); 2 }
      }
    }
    _ => { eprintln!("usage: mechsim-fs check --property C20 --tier quick|thorough | replay <file> | digests --runs N"); 2 }
  };
  std::process::exit(code);
}

fn check_cmd(args: &[String]) -> i32 {
  let tier = arg(args, "--tier").map(|s| s.to_string()).or_else(|| std::env::var("VERIF_TIER").ok()).unwrap_or("quick".into());
  let thorough = tier == "thorough";
  let tier = if thorough { "thorough".to_string() } else { "quick".to_string() };
  let seed: u64 = arg(args, "--seed").and_then(|s| s.parse().ok()).or_else(|| std::env::var("VERIF_SEED").ok().and_then(|s| s.parse().ok())).unwrap_or(1);
  let base = PathBuf::from(verif_dir());
  let mut wa: Vec<String> = vec!["worker".into(), "--seed".into(), seed.to_string()];
  if thorough { wa.push("--thorough".into()); }
  let mut spec = CheckSpec {
    property: "C20".into(), world: "W4".into(), tier: tier.clone(), seed, level: "exploration".into(),
    rule: format!("W4 include world: the real mech::read_mech_source_file over a directory tree built per run on tmpfs (private directory, one thread, removed afterwards) against a reference textual expander over the in-memory description of the same tree. Trees: 1-4 .mec files in up to 3 directories (root, child, grandchild, sibling), every ordered pair an include edge with probability 1/3 (self-loops 1/12, repeats), so chains, diamonds, repeated includes, self-includes and cycles of every length arise; relative spellings with `..` and `./`; include lines with leading/trailing spaces and tabs and inner padding; brace lines that are not includes; lines with several brace expressions (`{{1+1}} and {{b.mec}}`, `{{a.mec}}{{b.mec}}`: not stand-alone includes); include tokens embedded in longer lines; include lines before, after and inside fences (the reference decides from the text which they are); backtick and tilde fences of length 3-5 indented 0-3 spaces with and without info strings, include-looking lines inside fences, false closers (shorter, other marker, trailing text), unclosed fences, a four-space non-fence; files with and without a final newline, one file in eight with CRLF line ends. Faults as real file-system objects: missing targets, a directory named like the target, invalid UTF-8, dangling symlink, symlink alias of another file of the graph, symlink loop; and as history an editor actor that rewrites, re-links or removes files between up to three loads of the same root. {} A run is non-trivial if at least one load expanded text; distinct = digest over tree contents and load outcomes.", if thorough { "Thorough tier: runs 0..2047 walk all 2^9 edge subsets over three files crossed with four include-line/fence placements; the rest is seeded." } else { "" }),
    worker_args: wa,
    runs: if thorough { 2048 + 20_000_000 } else { 1_500_000 },
    budget: Duration::from_secs(if thorough { 420 } else { 40 }),
    chunk: 64,
    evidence: base.join("evidence/C20.json"),
    replays: base.join("replays/C20"),
    known: base.join("known_findings.jsonl"),
    components_real: vec!["mech::mechfs: read_mech_source_file, expand_mechdown_includes(_recursive), expand_mechdown_include_tokens, fence detection".into(), "std::fs on a real tmpfs directory tree (canonicalize, File::open, read_to_string, symlinks)".into()],
    components_stub: vec!["none of Mech is stubbed; simulated: the directory tree and its faults, the editor actor's schedule".into()],
    assumptions: vec![
      "the reference expander encodes C20 with CommonMark fence rules (opener: up to 3 spaces then >= 3 backticks or tildes; closer: same marker, at least as long, nothing but whitespace after)".into(),
      "when both a cycle and a missing/unreadable file are reachable and the reference meets one first, either error class is accepted (the property does not order them)".into(),
      "CRLF line endings are not generated (the property does not mention them)".into(),
    ],
    expected_reach: vec!["reach:same-file-included-more-than-once".into(), "reach:include-depth-3-or-more".into(), "reach:include-looking-line-inside-fence".into(), "reach:include-through-dotdot".into(), "reach:include-line-with-padding".into(), "reach:unclosed-fence".into(), "reach:crlf-file-expanded".into(), "reach:expansions-with-at-least-one-include".into(), "reach:expect-text".into(), "reach:expect-circular".into(), "reach:expect-include-failed".into(), "fault:missing-target".into(), "fault:directory-in-place-of-file".into(), "fault:invalid-utf8".into(), "fault:dangling-symlink".into(), "fault:symlink-alias".into(), "fault:symlink-loop".into(), "fault:editor-changed-tree-between-loads".into()],
    exhaustive: false,
    extra: json!({}),
  };
  if let Some(r) = arg(args, "--runs").and_then(|s| s.parse().ok()) { spec.runs = r; }
  if let Some(b) = arg(args, "--budget-s").and_then(|s| s.parse::<u64>().ok()) { spec.budget = Duration::from_secs(b); }
  if let Some(b) = std::env::var("VERIF_BUDGET_S").ok().and_then(|s| s.parse::<u64>().ok()) { spec.budget = Duration::from_secs(b); }
  if let Some(e) = arg(args, "--evidence") { spec.evidence = PathBuf::from(e); }
  supervisor::set_watchdog(20); // a load takes well under a millisecond; C20 includes termination
  let code = drive(spec);
  std::fs::remove_dir_all(format!("/dev/shm/mechsim-fs-{}", std::process::id())).ok();
  code
}

fn replay_cmd(args: &[String]) -> i32 {
  let path = match args.get(0) { Some(p) => p, None => { eprintln!("replay <file>"); return 2; } };
  let j: J = match std::fs::read_to_string(path).ok().and_then(|t| serde_json::from_str(&t).ok()) { Some(j) => j, None => { eprintln!("cannot read {}", path); return 2; } };
  node::install_silent_panic_hook();
  let want = j["signature"].as_str().or_else(|| j["violation"]["signature"].as_str()).unwrap_or("").to_string();
  let sc: Scenario = match serde_json::from_value(j["scenario"].clone()) { Ok(s) => s, Err(e) => { eprintln!("bad scenario: {}", e); return 2; } };
  if !flag(args, "--in-process") {
    // a broken cycle check overflows the stack: observe that from outside
    let exe = std::env::current_exe().unwrap();
    let _ = exe;
    return match supervisor::child_with_timeout(&["replay".to_string(), path.to_string(), "--in-process".to_string()], 60) {
      Ok((code, out, err, timed_out)) => {
        print!("{}", out);
        if timed_out { println!("REPRODUCED host-aborted|process|watchdog (loading did not return within 60 s)"); return 1; }
        match code { Some(c @ (0 | 1)) => c, _ => { println!("REPRODUCED host-aborted|process|died ({})", mechsim::node::trunc(err.trim(), 200)); 1 } }
      }
      Err(e) => { eprintln!("cannot spawn: {}", e); 2 }
    };
  }
  let out = execute(&sc, "replay", None);
  for l in &out.log { println!("{}", l); }
  match out.violation {
    Some(v) if want.is_empty() || v.signature == want => { println!("{}", v.summary); println!("REPRODUCED {}", v.signature); 1 }
    Some(v) => { println!("different violation: {} (wanted {})", v.signature, want); 1 }
    None => { println!("not reproduced"); 0 }
  }
}
