//! The only source of randomness in the simulator: SplitMix64 -> xoshiro256**.
//! Implemented here so that a seed means the same execution whatever `rand` version is around.

#[derive(Clone, Debug)]
pub struct Rng {
  s: [u64; 4],
}

pub fn splitmix64(x: &mut u64) -> u64 {
  *x = x.wrapping_add(0x9E37_79B9_7F4A_7C15);
  let mut z = *x;
  z = (z ^ (z >> 30)).wrapping_mul(0xBF58_476D_1CE4_E5B9);
  z = (z ^ (z >> 27)).wrapping_mul(0x94D0_49BB_1331_11EB);
  z ^ (z >> 31)
}

/// Mix several integers into one 64-bit stream id (order-sensitive).
pub fn mix(parts: &[u64]) -> u64 {
  let mut h: u64 = 0x243F_6A88_85A3_08D3;
  for p in parts {
    let mut x = h ^ p.wrapping_mul(0x9E37_79B9_7F4A_7C15);
    h = splitmix64(&mut x) ^ h.rotate_left(17);
  }
  h
}

impl Rng {
  pub fn new(seed: u64) -> Rng {
    let mut x = seed;
    let s = [splitmix64(&mut x), splitmix64(&mut x), splitmix64(&mut x), splitmix64(&mut x)];
    Rng { s }
  }
  /// Stream of run `k` of world `w` under `VERIF_SEED = seed`.
  pub fn for_run(seed: u64, world: u64, k: u64) -> Rng {
    Rng::new(mix(&[seed, world, k]))
  }
  pub fn next(&mut self) -> u64 {
    let r = self.s[1].wrapping_mul(5).rotate_left(7).wrapping_mul(9);
    let t = self.s[1] << 17;
    self.s[2] ^= self.s[0];
    self.s[3] ^= self.s[1];
    self.s[1] ^= self.s[2];
    self.s[0] ^= self.s[3];
    self.s[2] ^= t;
    self.s[3] = self.s[3].rotate_left(45);
    r
  }
  /// uniform in 0..n (n > 0)
  pub fn below(&mut self, n: u64) -> u64 {
    debug_assert!(n > 0);
    // multiply-shift; bias is irrelevant at these sizes
    ((self.next() as u128 * n as u128) >> 64) as u64
  }
  pub fn range(&mut self, lo: i64, hi_incl: i64) -> i64 {
    lo + self.below((hi_incl - lo + 1) as u64) as i64
  }
  pub fn usize(&mut self, n: usize) -> usize {
    self.below(n as u64) as usize
  }
  pub fn chance(&mut self, num: u64, den: u64) -> bool {
    self.below(den) < num
  }
  pub fn pick<'a, T>(&mut self, xs: &'a [T]) -> &'a T {
    &xs[self.usize(xs.len())]
  }
  /// weighted choice; weights may contain zeros, at least one must be positive
  pub fn weighted(&mut self, w: &[u32]) -> usize {
    let total: u64 = w.iter().map(|x| *x as u64).sum();
    debug_assert!(total > 0);
    let mut r = self.below(total);
    for (i, x) in w.iter().enumerate() {
      if r < *x as u64 {
        return i;
      }
      r -= *x as u64;
    }
    w.len() - 1
  }
  pub fn shuffle<T>(&mut self, xs: &mut [T]) {
    for i in (1..xs.len()).rev() {
      let j = self.usize(i + 1);
      xs.swap(i, j);
    }
  }
}

/// FNV-1a/splitmix hybrid used for digests of event logs (stable across processes, no RandomState).
#[derive(Clone, Copy, Debug)]
pub struct Digest(pub u64);
impl Digest {
  pub fn new() -> Digest {
    Digest(0xcbf2_9ce4_8422_2325)
  }
  pub fn bytes(&mut self, b: &[u8]) {
    for x in b {
      self.0 ^= *x as u64;
      self.0 = self.0.wrapping_mul(0x0000_0100_0000_01B3);
    }
    // separator so that ("ab","c") != ("a","bc")
    self.0 ^= 0xff;
    self.0 = self.0.wrapping_mul(0x0000_0100_0000_01B3);
  }
  pub fn str(&mut self, s: &str) {
    self.bytes(s.as_bytes())
  }
  pub fn u64(&mut self, x: u64) {
    self.bytes(&x.to_le_bytes())
  }
  pub fn finish(&self) -> u64 {
    let mut x = self.0;
    splitmix64(&mut x)
  }
}
