//! Structural, address-free, hash-order-free snapshot of Mech values.
//!
//! Observations never go through `Debug`/`Display` of Mech values: those print `@0x…` cell
//! addresses and iterate `HashMap`s. `SV` is built by walking the value tree.

use mech_core::matrix::Matrix;
use mech_core::*;
use serde::{Deserialize, Serialize};
use serde_json::{json, Value as J};

#[derive(Clone, Copy, Debug, PartialEq, Eq, Hash, PartialOrd, Ord, Serialize, Deserialize)]
pub enum NK {
  U8, U16, U32, U64, U128, I8, I16, I32, I64, I128, F32, F64,
}

impl NK {
  pub fn name(&self) -> &'static str {
    match self {
      NK::U8 => "u8", NK::U16 => "u16", NK::U32 => "u32", NK::U64 => "u64", NK::U128 => "u128",
      NK::I8 => "i8", NK::I16 => "i16", NK::I32 => "i32", NK::I64 => "i64", NK::I128 => "i128",
      NK::F32 => "f32", NK::F64 => "f64",
    }
  }
  pub fn from_name(s: &str) -> Option<NK> {
    Some(match s {
      "u8" => NK::U8, "u16" => NK::U16, "u32" => NK::U32, "u64" => NK::U64, "u128" => NK::U128,
      "i8" => NK::I8, "i16" => NK::I16, "i32" => NK::I32, "i64" => NK::I64, "i128" => NK::I128,
      "f32" => NK::F32, "f64" => NK::F64,
      _ => return None,
    })
  }
  pub fn is_float(&self) -> bool { matches!(self, NK::F32 | NK::F64) }
  pub fn is_signed(&self) -> bool { matches!(self, NK::I8 | NK::I16 | NK::I32 | NK::I64 | NK::I128) }
  pub fn is_unsigned(&self) -> bool { matches!(self, NK::U8 | NK::U16 | NK::U32 | NK::U64 | NK::U128) }
  /// inclusive integer range
  pub fn int_range(&self) -> Option<(i128, i128)> {
    Some(match self {
      NK::U8 => (0, u8::MAX as i128), NK::U16 => (0, u16::MAX as i128), NK::U32 => (0, u32::MAX as i128),
      NK::U64 => (0, u64::MAX as i128), NK::U128 => (0, i128::MAX),
      NK::I8 => (i8::MIN as i128, i8::MAX as i128), NK::I16 => (i16::MIN as i128, i16::MAX as i128),
      NK::I32 => (i32::MIN as i128, i32::MAX as i128), NK::I64 => (i64::MIN as i128, i64::MAX as i128),
      NK::I128 => (i128::MIN, i128::MAX),
      _ => return None,
    })
  }
}

/// Canonical value. Integers are stored as i128 (u128 values above i128::MAX are not generated),
/// floats by bit pattern with every NaN collapsed to one.
#[derive(Clone, Debug, PartialEq, Eq, Hash, PartialOrd, Ord, Serialize, Deserialize)]
pub enum SV {
  Int(NK, i128),
  F64(u64),
  F32(u32),
  C64(u64, u64),
  R64(i64, i64),
  Bool(bool),
  Str(String),
  Atom(String),
  /// element kind tag, rows, cols, column-major data
  Mat(String, usize, usize, Vec<SV>),
  /// element-kind tag, elements sorted canonically (a set has no order)
  Set(String, Vec<SV>),
  Map(Vec<(SV, SV)>),
  /// fields in declaration order: (name, kind tag, value)
  Record(Vec<(String, String, SV)>),
  /// columns in declaration order: (name, kind tag, values)
  Table(usize, Vec<(String, String, Vec<SV>)>),
  Tuple(Vec<SV>),
  Enum(String),
  Empty,
  /// anything else, as an address-free description
  Other(String),
}

pub fn canon_f64(x: f64) -> u64 {
  if x.is_nan() { 0x7ff8_0000_0000_0000 } else { x.to_bits() }
}
pub fn canon_f32(x: f32) -> u32 {
  if x.is_nan() { 0x7fc0_0000 } else { x.to_bits() }
}

impl SV {
  pub fn f64(x: f64) -> SV { SV::F64(canon_f64(x)) }
  pub fn as_f64(&self) -> Option<f64> {
    match self { SV::F64(b) => Some(f64::from_bits(*b)), _ => None }
  }
  /// tag of the kind of a scalar/element: "f64", "u8", "bool", "string", …
  pub fn kind_tag(&self) -> String {
    match self {
      SV::Int(k, _) => k.name().to_string(),
      SV::F64(_) => "f64".into(),
      SV::F32(_) => "f32".into(),
      SV::C64(..) => "c64".into(),
      SV::R64(..) => "r64".into(),
      SV::Bool(_) => "bool".into(),
      SV::Str(_) => "string".into(),
      SV::Atom(_) => "atom".into(),
      SV::Mat(ek, r, c, _) => format!("[{}]:{},{}", ek, r, c),
      SV::Set(ek, v) => format!("{{{}}}:{}", ek, v.len()),
      SV::Map(_) => "map".into(),
      SV::Record(f) => format!("{{{}}}", f.iter().map(|(n, k, _)| format!("{}<{}>", n, k)).collect::<Vec<_>>().join(" ")),
      SV::Table(rows, cols) => format!("|{}|:{}", cols.iter().map(|(n, k, _)| format!("{}<{}>", n, k)).collect::<Vec<_>>().join(" "), rows),
      SV::Tuple(e) => format!("({})", e.iter().map(|x| x.kind_tag()).collect::<Vec<_>>().join(",")),
      SV::Enum(_) => "enum".into(),
      SV::Empty => "_".into(),
      SV::Other(s) => format!("other:{}", s.split(':').next().unwrap_or("")),
    }
  }
  pub fn is_matrix(&self) -> bool { matches!(self, SV::Mat(..)) }
  pub fn is_scalar(&self) -> bool {
    matches!(self, SV::Int(..) | SV::F64(_) | SV::F32(_) | SV::Bool(_) | SV::Str(_) | SV::C64(..) | SV::R64(..))
  }

  pub fn digest_into(&self, d: &mut crate::rng::Digest) {
    d.str(&self.show());
  }

  /// Compact, deterministic text (for logs, digests, replay files).
  pub fn show(&self) -> String {
    match self {
      SV::Int(k, v) => format!("{}{}", v, k.name()),
      SV::F64(b) => {
        let x = f64::from_bits(*b);
        if x.is_nan() { "NaN".into() } else if x == 0.0 && x.is_sign_negative() { "-0.0".into() } else { format!("{:?}", x) }
      }
      SV::F32(b) => format!("{:?}f32", f32::from_bits(*b)),
      SV::C64(r, i) => format!("{:?}+{:?}i", f64::from_bits(*r), f64::from_bits(*i)),
      SV::R64(n, d) => format!("{}/{}", n, d),
      SV::Bool(b) => format!("{}", b),
      SV::Str(s) => format!("{:?}", s),
      SV::Atom(s) => format!(":{}", s),
      SV::Mat(ek, r, c, d) => format!("[{}:{}x{}|{}]", ek, r, c, d.iter().map(|x| x.show()).collect::<Vec<_>>().join(" ")),
      SV::Set(ek, d) => format!("{{{}|{}}}", ek, d.iter().map(|x| x.show()).collect::<Vec<_>>().join(", ")),
      SV::Map(kv) => format!("{{{}}}", kv.iter().map(|(k, v)| format!("{}: {}", k.show(), v.show())).collect::<Vec<_>>().join(", ")),
      SV::Record(f) => format!("{{{}}}", f.iter().map(|(n, k, v)| format!("{}<{}>: {}", n, k, v.show())).collect::<Vec<_>>().join(", ")),
      SV::Table(rows, cols) => format!("|{} rows; {}|", rows, cols.iter().map(|(n, k, v)| format!("{}<{}>: {}", n, k, v.iter().map(|x| x.show()).collect::<Vec<_>>().join(" "))).collect::<Vec<_>>().join("; ")),
      SV::Tuple(e) => format!("({})", e.iter().map(|x| x.show()).collect::<Vec<_>>().join(", ")),
      SV::Enum(s) => format!("enum {}", s),
      SV::Empty => "_".into(),
      SV::Other(s) => format!("<{}>", s),
    }
  }
  pub fn to_json(&self) -> J {
    json!(self.show())
  }
}

fn strip_addrs(s: &str) -> String {
  // remove "@0x0123abcd…" tokens that `Debug for Ref` prints
  let b = s.as_bytes();
  let mut out = String::with_capacity(s.len());
  let mut i = 0;
  while i < b.len() {
    if b[i] == b'@' && i + 2 < b.len() && b[i + 1] == b'0' && b[i + 2] == b'x' {
      i += 3;
      while i < b.len() && (b[i] as char).is_ascii_hexdigit() { i += 1; }
      out.push_str("@");
    } else {
      // safe: we only cut at ASCII boundaries
      let ch_len = utf8_len(b[i]);
      out.push_str(&s[i..i + ch_len]);
      i += ch_len;
    }
  }
  out
}
fn utf8_len(b: u8) -> usize {
  if b < 0x80 { 1 } else if b >> 5 == 0b110 { 2 } else if b >> 4 == 0b1110 { 3 } else { 4 }
}
pub fn strip_addresses(s: &str) -> String { strip_addrs(s) }

fn kind_tag_of(k: &ValueKind) -> String {
  // ValueKind's Display is address-free and iterates only Vecs.
  format!("{}", k)
}

fn mat<T: Clone + std::fmt::Debug + PartialEq + 'static>(ek: &str, m: &Matrix<T>, f: impl Fn(&T) -> SV) -> SV {
  let shape = m.shape();
  let data: Vec<SV> = m.as_vec().iter().map(|x| f(x)).collect();
  SV::Mat(ek.to_string(), shape[0], shape[1], data)
}

/// Convert a Mech value to its canonical structural form. Never panics on shared borrows:
/// all borrows are immutable and released before recursing into siblings.
pub fn snap(v: &Value) -> SV {
  match v {
    Value::U8(x) => SV::Int(NK::U8, *x.borrow() as i128),
    Value::U16(x) => SV::Int(NK::U16, *x.borrow() as i128),
    Value::U32(x) => SV::Int(NK::U32, *x.borrow() as i128),
    Value::U64(x) => SV::Int(NK::U64, *x.borrow() as i128),
    Value::U128(x) => SV::Int(NK::U128, *x.borrow() as i128),
    Value::I8(x) => SV::Int(NK::I8, *x.borrow() as i128),
    Value::I16(x) => SV::Int(NK::I16, *x.borrow() as i128),
    Value::I32(x) => SV::Int(NK::I32, *x.borrow() as i128),
    Value::I64(x) => SV::Int(NK::I64, *x.borrow() as i128),
    Value::I128(x) => SV::Int(NK::I128, *x.borrow()),
    Value::F32(x) => SV::F32(canon_f32(*x.borrow())),
    Value::F64(x) => SV::F64(canon_f64(*x.borrow())),
    Value::String(x) => SV::Str(x.borrow().clone()),
    Value::Bool(x) => SV::Bool(*x.borrow()),
    Value::Atom(x) => SV::Atom(x.borrow().name()),
    Value::C64(x) => { let c = x.borrow(); SV::C64(canon_f64(c.0.re), canon_f64(c.0.im)) }
    Value::R64(x) => { let r = x.borrow(); SV::R64(*r.numer(), *r.denom()) }
    Value::MatrixIndex(m) => mat("ix", m, |x| SV::Int(NK::U64, *x as i128)),
    Value::MatrixBool(m) => mat("bool", m, |x| SV::Bool(*x)),
    Value::MatrixU8(m) => mat("u8", m, |x| SV::Int(NK::U8, *x as i128)),
    Value::MatrixU16(m) => mat("u16", m, |x| SV::Int(NK::U16, *x as i128)),
    Value::MatrixU32(m) => mat("u32", m, |x| SV::Int(NK::U32, *x as i128)),
    Value::MatrixU64(m) => mat("u64", m, |x| SV::Int(NK::U64, *x as i128)),
    Value::MatrixU128(m) => mat("u128", m, |x| SV::Int(NK::U128, *x as i128)),
    Value::MatrixI8(m) => mat("i8", m, |x| SV::Int(NK::I8, *x as i128)),
    Value::MatrixI16(m) => mat("i16", m, |x| SV::Int(NK::I16, *x as i128)),
    Value::MatrixI32(m) => mat("i32", m, |x| SV::Int(NK::I32, *x as i128)),
    Value::MatrixI64(m) => mat("i64", m, |x| SV::Int(NK::I64, *x as i128)),
    Value::MatrixI128(m) => mat("i128", m, |x| SV::Int(NK::I128, *x)),
    Value::MatrixF32(m) => mat("f32", m, |x| SV::F32(canon_f32(*x))),
    Value::MatrixF64(m) => mat("f64", m, |x| SV::F64(canon_f64(*x))),
    Value::MatrixString(m) => mat("string", m, |x| SV::Str(x.clone())),
    Value::MatrixR64(m) => mat("r64", m, |x| SV::R64(*x.numer(), *x.denom())),
    Value::MatrixC64(m) => mat("c64", m, |x| SV::C64(canon_f64(x.0.re), canon_f64(x.0.im))),
    Value::MatrixValue(m) => mat("*", m, |x| snap(x)),
    Value::Set(s) => {
      let s = s.borrow();
      let mut els: Vec<SV> = s.set.iter().map(snap).collect();
      els.sort();
      SV::Set(kind_tag_of(&s.kind), els)
    }
    Value::Map(m) => {
      let m = m.borrow();
      let mut kv: Vec<(SV, SV)> = m.map.iter().map(|(k, v)| (snap(k), snap(v))).collect();
      kv.sort();
      SV::Map(kv)
    }
    Value::Record(r) => {
      let r = r.borrow();
      let mut fields = vec![];
      for (i, (id, val)) in r.data.iter().enumerate() {
        let name = r.field_names.get(id).cloned().unwrap_or_else(|| format!("#{}", id));
        let kind = r.kinds.get(i).map(kind_tag_of).unwrap_or_else(|| "?".into());
        fields.push((name, kind, snap(val)));
      }
      SV::Record(fields)
    }
    Value::Table(t) => {
      let t = t.borrow();
      let mut cols = vec![];
      for (id, (kind, m)) in t.data.iter() {
        let name = t.col_names.get(id).cloned().unwrap_or_else(|| format!("#{}", id));
        let data: Vec<SV> = m.as_vec().iter().map(snap).collect();
        cols.push((name, kind_tag_of(kind), data));
      }
      SV::Table(t.rows, cols)
    }
    Value::Tuple(t) => SV::Tuple(t.borrow().elements.iter().map(|e| snap(e)).collect()),
    Value::Enum(e) => {
      let e = e.borrow();
      let names = e.names.borrow();
      let mut s = names.get(&e.id).cloned().unwrap_or_else(|| format!("{}", e.id));
      for (vid, payload) in &e.variants {
        s.push_str(&format!(" :{}", names.get(vid).cloned().unwrap_or_else(|| format!("{}", vid))));
        if let Some(p) = payload {
          s.push_str(&format!("({})", snap(p).show()));
        }
      }
      SV::Enum(s)
    }
    Value::Id(x) => SV::Other(format!("id:{}", x)),
    Value::Index(x) => SV::Other(format!("ix:{}", *x.borrow())),
    Value::MutableReference(r) => snap(&r.borrow()),
    Value::Typed(inner, k) => match snap(inner) {
      SV::Empty => SV::Other(format!("typed-empty:{}", kind_tag_of(k))),
      x => x,
    },
    Value::Kind(k) => SV::Other(format!("kind:{}", kind_tag_of(k))),
    Value::IndexAll => SV::Other("index-all".into()),
    Value::EmptyKind(k) => SV::Other(format!("empty-kind:{}", kind_tag_of(k))),
    Value::Empty => SV::Empty,
    #[allow(unreachable_patterns)]
    _ => SV::Other("unknown-variant".into()),
  }
}

/// Snapshot of a whole symbol table: (name, mutable, value), sorted by name. `ans` is excluded.
pub type Store = Vec<(String, bool, SV)>;

pub fn snap_symbols(intrp: &mech_interpreter::Interpreter) -> Store {
  let syms = intrp.symbols();
  let syms = syms.borrow();
  let dict = syms.dictionary.borrow();
  let mut out: Store = vec![];
  for (id, cell) in syms.symbols.iter() {
    let name = dict.get(id).cloned().unwrap_or_else(|| format!("#{}", id));
    if name == "ans" { continue; }
    let mutable = syms.mutable_variables.contains_key(id);
    let v = match cell.0.try_borrow() {
      Ok(v) => snap(&v),
      Err(_) => SV::Other("cell-left-mutably-borrowed".into()),
    };
    out.push((name, mutable, v));
  }
  out.sort_by(|a, b| a.0.cmp(&b.0));
  out
}

pub fn store_digest(s: &Store) -> u64 {
  let mut d = crate::rng::Digest::new();
  for (n, m, v) in s {
    d.str(n);
    d.u64(*m as u64);
    v.digest_into(&mut d);
  }
  d.finish()
}

pub fn store_json(s: &Store) -> J {
  J::Array(s.iter().map(|(n, m, v)| json!({"name": n, "mutable": m, "value": v.show()})).collect())
}

/// Address-free classification of an error: the `MechErrorKind::name()`.
pub fn err_name(e: &MechError) -> String {
  e.kind_name().to_string()
}
