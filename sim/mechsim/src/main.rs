use mechsim::check::*;
use mechsim::*;
use serde_json::{json, Value as J};
use std::path::PathBuf;
use std::time::Duration;

#[global_allocator]
static GLOBAL: alloc::Counting = alloc::Counting;

const VERIF: &str = "/verif";

fn arg<'a>(args: &'a [String], name: &str) -> Option<&'a str> {
  args.iter().position(|a| a == name).and_then(|i| args.get(i + 1)).map(|s| s.as_str())
}
fn flag(args: &[String], name: &str) -> bool { args.iter().any(|a| a == name) }

fn main() {
  let args: Vec<String> = std::env::args().collect();
  let code = match args.get(1).map(|s| s.as_str()) {
    Some("probe") => { probe(&args[2..]); 0 }
    Some("seamtest") => { seamtest(); 0 }
    Some("worker") => { worker(&args[2..]); 0 }
    Some("check") => check_cmd(&args[2..]),
    Some("replay") => replay_cmd(&args[2..]),
    Some("baseline") => baseline_cmd(&args[2..]),
    Some("digests") => digests_cmd(&args[2..]),
    _ => {
      eprintln!("usage: mechsim check --property Cxx --tier quick|thorough [--seed N] | replay <file> | probe <file> | baseline w1 | digests --property Cxx --runs N");
      2
    }
  };
  std::process::exit(code);
}

fn seed_from(args: &[String]) -> u64 {
  arg(args, "--seed").and_then(|s| s.parse().ok())
    .or_else(|| std::env::var("VERIF_SEED").ok().and_then(|s| s.parse().ok()))
    .unwrap_or(1)
}

fn known_sigs() -> Vec<(String, String)> {
  load_known(&PathBuf::from(VERIF).join("known_findings.jsonl")).into_iter().filter(|k| k.status == "known").map(|k| (k.property, k.signature)).collect()
}

// -------------------------------------------------------------------------------------------------
// worker

fn worker(args: &[String]) {
  node::install_silent_panic_hook();
  supervisor::limit_address_space(16 << 30);
  alloc::set_hard_cap(2 << 30);
  let world = arg(args, "--world").unwrap_or("W1").to_string();
  let seed: u64 = arg(args, "--seed").and_then(|s| s.parse().ok()).unwrap_or(1);
  let known = known_sigs();
  match world.as_str() {
    "W1" => {
      let profile: &'static str = if arg(args, "--profile") == Some("C04") { "C04" } else { "C05" };
      let discover = flag(args, "--discover");
      let supported = if discover { std::sync::Arc::new(Default::default()) } else { w1::load_supported(&format!("{}/baselines/w1_supported.txt", VERIF)) };
      supervisor::worker_loop(|k| w1::worker_run(seed, k, profile, supported.clone(), &known, discover));
    }
    w => { eprintln!("unknown world {}", w); std::process::exit(2); }
  }
}

// -------------------------------------------------------------------------------------------------
// check

fn check_cmd(args: &[String]) -> i32 {
  let property = arg(args, "--property").unwrap_or("").to_string();
  let tier = arg(args, "--tier").map(|s| s.to_string()).or_else(|| std::env::var("VERIF_TIER").ok()).unwrap_or("quick".into());
  let tier = if tier == "thorough" { "thorough".to_string() } else { "quick".to_string() };
  let seed = seed_from(args);
  let thorough = tier == "thorough";
  let runs_override: Option<u64> = arg(args, "--runs").and_then(|s| s.parse().ok());
  let budget_override: Option<u64> = arg(args, "--budget-s").and_then(|s| s.parse().ok());
  let base = PathBuf::from(VERIF);
  let common_real = vec![
    "mech-syntax parser (nom)".to_string(), "mech-interpreter (tree-walking interpreter, statements, subscripts)".to_string(),
    "mech-core values/symbol table/plan".to_string(), "stdlib kernels in machines/* and interpreter/src/stdlib".to_string(),
  ];
  let common_stub = vec!["none of Mech is stubbed; simulated: RandomState hash-seed source (getrandom seam), statement schedule, fault placement".to_string()];
  let mut spec = match property.as_str() {
    "C04" | "C05" => {
      let c04 = property == "C04";
      CheckSpec {
        property: property.clone(), world: "W1".into(), tier: tier.clone(), seed, level: "exploration".into(),
        rule: if c04 {
          "W1 session world, C04 profile: one real Interpreter per run on a fresh thread with a PRNG-chosen hash seed; a PRNG-generated session of 3-40 statements biased to mutable matrix targets (element kinds f64/u8/i64/u16/i8/bool/string, shapes up to 5x5) walking the index-form grid (scalar, index vector, inclusive/exclusive range, ':', logical mask, index held in a variable; one or two positions) with scalar and vector sources, assignments and op-assignments, several per variable, faults (out-of-range at a chosen position, wrong source kind, failing source, undefined/immutable target) placed inside statements at a per-run rate 0-40%; after every statement the full symbol table is compared with a reference store (frame condition, failure atomicity, read-back). A run is non-trivial if at least one statement changed the store; distinct = distinct event-log digest (statement text, outcome, store digest per step).".into()
        } else {
          "W1 session world, C05 profile: one real Interpreter per run on a fresh thread with a PRNG-chosen hash seed; a PRNG-generated session of 3-40 statements over 2-5 names and value classes scalar/matrix/record/tuple/set/table: define, mutable define, define-from-variable/field/element (aliasing chains), assign, indexed assign, op-assign, field and tuple-element assign, tuple destructure, reads; faults are real statements engineered to fail at a chosen internal site (redefinition, undefined/immutable target, failing source expression, index out of range at position k, wrong kind, name collision / too many names at position k of a destructure, unconvertible annotation) at a per-run rate 0-40%; after every statement outcome and full symbol table are compared with a reference store with copy semantics. A run is non-trivial if at least one statement changed the store; distinct = distinct event-log digest.".into()
        },
        worker_args: vec!["worker".into(), "--world".into(), "W1".into(), "--profile".into(), property.clone(), "--seed".into(), seed.to_string()],
        runs: if thorough { 1_500_000 } else { 60_000 },
        budget: Duration::from_secs(if thorough { 600 } else { 55 }),
        chunk: 32,
        evidence: base.join(format!("evidence/{}.json", property)),
        replays: base.join(format!("replays/{}", property)),
        known: base.join("known_findings.jsonl"),
        components_real: common_real, components_stub: common_stub,
        assumptions: vec![
          "the reference store encodes C04/C05 as stated; combinations the statement does not pin down are accepted either way (rejected with the store unchanged, or accepted with the frame condition on every other binding)".into(),
          "baselines/w1_supported.txt (derived from the pinned tree) lists the combinations that must keep being accepted".into(),
          "heap addresses are not controlled, only kept out of observations (structural snapshots)".into(),
        ],
        expected_reach: vec![],
        exhaustive: false,
        extra: json!({}),
      }
    }
    p => { eprintln!("unknown property {}", p); return 2; }
  };
  if let Some(r) = runs_override { spec.runs = r; }
  if let Some(b) = budget_override { spec.budget = Duration::from_secs(b); }
  if let Some(e) = arg(args, "--evidence") { spec.evidence = PathBuf::from(e); }
  drive(spec)
}

// -------------------------------------------------------------------------------------------------
// replay

fn replay_cmd(args: &[String]) -> i32 {
  let path = match args.get(0) { Some(p) => p, None => { eprintln!("replay <file>"); return 2; } };
  let text = match std::fs::read_to_string(path) { Ok(t) => t, Err(e) => { eprintln!("cannot read {}: {}", path, e); return 2; } };
  let j: J = match serde_json::from_str(&text) { Ok(j) => j, Err(e) => { eprintln!("bad replay file: {}", e); return 2; } };
  node::install_silent_panic_hook();
  let want = j["signature"].as_str().or_else(|| j["violation"]["signature"].as_str()).unwrap_or("").to_string();
  if j["regenerate"].as_bool() == Some(true) {
    // crash replays: re-run (seed, run) through the generator in a fresh worker
    let wargs: Vec<String> = j["worker_args"].as_array().map(|a| a.iter().filter_map(|x| x.as_str().map(|s| s.to_string())).collect()).unwrap_or_default();
    let k = j["run"].as_u64().unwrap_or(0);
    return match supervisor::run_single(wargs, k) {
      Err(why) => { println!("REPRODUCED {} ({})", want, why); 1 }
      Ok(_) => { println!("not reproduced: run {} completed", k); 0 }
    };
  }
  match j["world"].as_str() {
    Some("W1") => {
      let ops: Vec<w1::ops::Op> = match serde_json::from_value(j["ops"].clone()) { Ok(o) => o, Err(e) => { eprintln!("bad ops: {}", e); return 2; } };
      let hs = j["hash_seed"].as_u64().unwrap_or(1);
      let props: Vec<String> = j["violation"]["properties"].as_array().map(|a| a.iter().filter_map(|x| x.as_str().map(|s| s.to_string())).collect()).unwrap_or(vec!["C04".into(), "C05".into()]);
      let supported = w1::load_supported(&format!("{}/baselines/w1_supported.txt", VERIF));
      let r = w1::run::execute_explicit(ops, hs, props, supported, &known_sigs());
      for l in &r.log { println!("{}", l); }
      match r.violation {
        Some(v) if want.is_empty() || v.signature == want => { println!("REPRODUCED {}", v.signature); 1 }
        Some(v) => { println!("different violation: {} (wanted {})", v.signature, want); 1 }
        None => { println!("not reproduced"); 0 }
      }
    }
    w => { eprintln!("replay: unknown world {:?}", w); 2 }
  }
}

// -------------------------------------------------------------------------------------------------
// baseline discovery: which combinations does the current tree accept (and never reject)?

fn baseline_cmd(args: &[String]) -> i32 {
  let runs: u64 = arg(args, "--runs").and_then(|s| s.parse().ok()).unwrap_or(400_000);
  let mut ok = std::collections::BTreeSet::new();
  let mut err = std::collections::BTreeSet::new();
  for profile in ["C04", "C05"] {
    for seed in [1u64, 2, 3] {
      let wargs: Vec<String> = vec!["worker".into(), "--world".into(), "W1".into(), "--profile".into(), profile.into(), "--seed".into(), seed.to_string(), "--discover".into()];
      let agg = supervisor::run_batch(wargs, 0, runs, supervisor::default_jobs(), Duration::from_secs(600), 64).expect("batch");
      if let Some(s) = agg.sets.get("combos_ok") { ok.extend(s.iter().cloned()); }
      if let Some(s) = agg.sets.get("combos_err") { err.extend(s.iter().cloned()); }
      eprintln!("profile {} seed {}: runs {} ok-combos {} err-combos {}", profile, seed, agg.runs, ok.len(), err.len());
    }
  }
  println!("# W1 supported-combination baseline: combinations accepted at least once and never rejected");
  println!("# generated by `mechsim baseline` on the pinned tree; reviewed; one key per line");
  for c in ok.iter() { if !err.contains(c) { println!("{}", c); } }
  eprintln!("--- combos both accepted and rejected (left as 'either'):");
  for c in ok.iter() { if err.contains(c) { eprintln!("{}", c); } }
  0
}

/// Per-run digests for the determinism self-test.
fn digests_cmd(args: &[String]) -> i32 {
  let property = arg(args, "--property").unwrap_or("C05").to_string();
  let runs: u64 = arg(args, "--runs").and_then(|s| s.parse().ok()).unwrap_or(200);
  let seed = seed_from(args);
  let jobs: usize = arg(args, "--jobs").and_then(|s| s.parse().ok()).unwrap_or(supervisor::default_jobs());
  let wargs: Vec<String> = match property.as_str() {
    "C04" | "C05" => vec!["worker".into(), "--world".into(), "W1".into(), "--profile".into(), property.clone(), "--seed".into(), seed.to_string()],
    p => { eprintln!("unknown property {}", p); return 2; }
  };
  let agg = match supervisor::run_batch(wargs, 0, runs, jobs, Duration::from_secs(3600), 8) { Ok(a) => a, Err(e) => { eprintln!("{}", e); return 2; } };
  let mut d = agg.digest_log.clone();
  d.sort();
  for (k, x) in d { println!("{} {:016x}", k, x); }
  0
}

// -------------------------------------------------------------------------------------------------
// exploration helpers

fn probe(args: &[String]) {
  let mut seed = 1u64;
  let mut batch = false;
  let mut file = None;
  let mut i = 0;
  while i < args.len() {
    match args[i].as_str() {
      "--seed" => { seed = args[i + 1].parse().unwrap(); i += 1; }
      "--batch" => batch = true,
      f => file = Some(f.to_string()),
    }
    i += 1;
  }
  let text = match file.as_deref() {
    Some("-") | None => { let mut s = String::new(); std::io::Read::read_to_string(&mut std::io::stdin(), &mut s).unwrap(); s }
    Some(f) => std::fs::read_to_string(f).unwrap(),
  };
  node::install_silent_panic_hook();
  let r = hashseed::on_node_thread(seed, move || {
    let mut n = node::Node::new();
    let mut prev: sv::Store = vec![];
    let chunks: Vec<String> = if batch { vec![text.clone()] } else { text.lines().map(|l| l.replace("⏎", "\n")).collect() };
    for line in chunks {
      if line.trim() == "----" { n = node::Node::new(); prev = vec![]; println!("---- new session"); continue; }
      if line.trim().is_empty() { continue; }
      let tree = node::parse_cached(&line);
      let is_code = tree.as_ref().ok().and_then(|t| node::code_items(t).map(|c| c.len()));
      let o = n.exec_text(&line);
      println!(">> {}\n   code_items={:?}  {}", line, is_code, o.show());
      let st = n.store();
      for (name, m, v) in &st {
        if !prev.iter().any(|(pn, pm, pv)| pn == name && pm == m && pv == v) { println!("      {}{} = {}", if *m { "~" } else { "" }, name, v.show()); }
      }
      for (pn, _, _) in &prev { if !st.iter().any(|(n2, _, _)| n2 == pn) { println!("      {} REMOVED", pn); } }
      prev = st;
    }
  });
  if let Err(e) = r { println!("node thread panicked: {}", e); }
}

fn seamtest() {
  for s in [1u64, 2, 1, 2, 3] {
    let o = hashseed::on_node_thread(s, || hashseed::probe_order()).unwrap();
    println!("seed {} -> {:?}", s, o);
  }
}
