#!/bin/bash
# usage: ./sweep.sh <first-seed> <last-seed> [budget-seconds] [tier]
# Runs every registered check with each VERIF_SEED in the range and prints one line per run.
# Evidence written by these runs goes to a scratch directory (the committed evidence is from ./check).
first="${1:-1}"; last="${2:-10}"; budget="${3:-20}"; tier="${4:-quick}"
HERE="$(cd "$(dirname "${BASH_SOURCE[0]}")" && pwd)"
cd "$HERE" && ./check build || exit 2
# run from private copies of the binaries, so that rebuilding the simulator meanwhile does not disturb the sweep
BINDIR="$(mktemp -d /dev/shm/mechsim-sweep-bin.XXXXXX)"
cp sim/target/debug/mechsim sim/target/debug/mechsim-fs "$BINDIR/"
trap 'rm -rf "$BINDIR"' EXIT
bad=0
for s in $(seq "$first" "$last"); do
  for P in C04 C05 C07 C17 C19 C20; do
    if [ "$P" = C20 ]; then B="$BINDIR/mechsim-fs"; else B="$BINDIR/mechsim"; fi
    out=$(VERIF_BUDGET_S="$budget" "$B" check --property "$P" --tier "$tier" --seed "$s" --evidence "/dev/shm/sweep-ev-$P.json" 2>&1)
    rc=$?
    line=$(echo "$out" | grep "^\[$P\] runs=" | tail -1)
    echo "seed=$s $P rc=$rc $line"
    if [ $rc -ne 0 ]; then bad=$((bad+1)); echo "$out" | grep -E "^VIOLATION|signature:|HARNESS" | head -5; fi
  done
done
echo "sweep done: $bad non-zero exits"
exit $(( bad > 0 ))
