//! W1 operation alphabet: harness-side ASTs, rendered to Mech source for the system and
//! interpreted directly by the reference store (the model never parses Mech).

use crate::sv::*;
use mech_core::nodes::*;
use serde::{Deserialize, Serialize};

#[derive(Clone, Copy, Debug, PartialEq, Eq, Hash, Serialize, Deserialize)]
pub enum Bop { Add, Sub, Mul, Div, And, Or }
impl Bop {
  pub fn sym(&self) -> &'static str {
    match self { Bop::Add => "+", Bop::Sub => "-", Bop::Mul => "*", Bop::Div => "/", Bop::And => "&&", Bop::Or => "||" }
  }
  pub fn name(&self) -> &'static str {
    match self { Bop::Add => "add", Bop::Sub => "sub", Bop::Mul => "mul", Bop::Div => "div", Bop::And => "and", Bop::Or => "or" }
  }
}

/// One index position.
#[derive(Clone, Debug, PartialEq, Eq, Hash, Serialize, Deserialize)]
pub enum Ix {
  /// scalar, 1-based (0 and negatives are generated as faults)
  S(i64),
  /// index vector literal `[a b c]`
  V(Vec<i64>),
  /// inclusive range `a..=b`
  R(i64, i64),
  /// exclusive range `a..b`
  RX(i64, i64),
  /// `:`
  All,
  /// logical mask literal `[true false …]`
  M(Vec<bool>),
  /// a variable holding the index (scalar or vector or mask)
  Var(String),
}
impl Ix {
  pub fn form(&self) -> &'static str {
    match self { Ix::S(_) => "S", Ix::V(_) => "V", Ix::R(..) => "R", Ix::RX(..) => "RX", Ix::All => "A", Ix::M(_) => "M", Ix::Var(_) => "X" }
  }
  pub fn render(&self) -> String {
    match self {
      Ix::S(i) => format!("{}", i),
      Ix::V(v) => format!("[{}]", v.iter().map(|x| x.to_string()).collect::<Vec<_>>().join(" ")),
      Ix::R(a, b) => format!("{}..={}", a, b),
      Ix::RX(a, b) => format!("{}..{}", a, b),
      Ix::All => ":".to_string(),
      Ix::M(m) => format!("[{}]", m.iter().map(|x| x.to_string()).collect::<Vec<_>>().join(" ")),
      Ix::Var(n) => n.clone(),
    }
  }
}

#[derive(Clone, Debug, PartialEq, Eq, Hash, Serialize, Deserialize)]
pub enum Sub { One(Ix), Two(Ix, Ix) }
impl Sub {
  pub fn form(&self) -> String {
    match self { Sub::One(a) => a.form().to_string(), Sub::Two(a, b) => format!("{},{}", a.form(), b.form()) }
  }
  pub fn render(&self) -> String {
    match self { Sub::One(a) => format!("[{}]", a.render()), Sub::Two(a, b) => format!("[{},{}]", a.render(), b.render()) }
  }
}

#[derive(Clone, Debug, PartialEq, Eq, Hash, Serialize, Deserialize)]
pub enum Expr {
  Lit(SV),
  Var(String),
  /// `x ⊕ literal`
  VarOp(String, Bop, SV),
  /// `x ⊕ y`
  VarVar(String, Bop, String),
  /// `x[sub]`
  VarIdx(String, Sub),
  /// `r.f` (record field or table column)
  Field(String, String),
  /// `t.k` (1-based)
  TupElem(String, usize),
  /// `literal ⊕ literal` (used to build failing sources such as `1 + "a"`, `1u8 - 2u8`)
  LitOp(SV, Bop, SV),
  /// `m{key}`
  MapGet(String, SV),
  /// call of a user function of the session prelude; arguments are literals or variables
  Call(String, Vec<Expr>),
  /// a container written with variables among its elements: kind is "tuple" `(x, 2)`, "record"
  /// `{a: x, b: 2}`, "map" `{"a": x, "b": 2}` or "mat" `[a]` / `[a b]`
  Built(String, Vec<BuiltElem>),
}

#[derive(Clone, Debug, PartialEq, Eq, Hash, Serialize, Deserialize)]
pub enum BuiltElem { Var(String), Lit(SV) }
impl BuiltElem {
  pub fn render(&self) -> String { match self { BuiltElem::Var(n) => n.clone(), BuiltElem::Lit(v) => render_lit(v) } }
}

#[derive(Clone, Debug, PartialEq, Eq, Hash, Serialize, Deserialize)]
pub enum Op {
  Define { name: String, mutable: bool, annot: Option<String>, e: Expr },
  Assign { name: String, e: Expr },
  IdxAssign { name: String, sub: Sub, e: Expr },
  OpAssign { name: String, sub: Option<Sub>, op: Bop, e: Expr },
  FieldAssign { name: String, field: String, e: Expr },
  TupAssign { name: String, pos: usize, e: Expr },
  Destructure { names: Vec<String>, e: Expr },
  Read { e: Expr },
  /// `m{key} = E`
  MapAssign { name: String, key: SV, e: Expr },
  /// op-assignment through a non-bracket subscript: `r.f += E`, `t.2 -= E`, `m{key} *= E`
  /// (`sel` is the rendered selector: ".f", ".2", `{"a"}`)
  SelOpAssign { name: String, sel: String, op: Bop, e: Expr },
  /// verbatim text that defines no variable (the function prelude); must be accepted, changes no binding
  Raw { text: String },
}

impl Op {
  pub fn kind(&self) -> &'static str {
    match self {
      Op::Define { mutable: false, .. } => "define",
      Op::Define { mutable: true, .. } => "mdefine",
      Op::Assign { .. } => "assign",
      Op::IdxAssign { .. } => "idx-assign",
      Op::OpAssign { sub: None, .. } => "op-assign",
      Op::OpAssign { sub: Some(_), .. } => "idx-op-assign",
      Op::FieldAssign { .. } => "field-assign",
      Op::TupAssign { .. } => "tuple-assign",
      Op::Destructure { .. } => "destructure",
      Op::Read { .. } => "read",
      Op::MapAssign { .. } => "map-assign",
      Op::SelOpAssign { .. } => "selector-op-assign",
      Op::Raw { .. } => "prelude",
    }
  }
  pub fn target(&self) -> Option<&str> {
    match self {
      Op::Define { name, .. } | Op::Assign { name, .. } | Op::IdxAssign { name, .. } | Op::OpAssign { name, .. }
      | Op::FieldAssign { name, .. } | Op::TupAssign { name, .. } | Op::MapAssign { name, .. } | Op::SelOpAssign { name, .. } => Some(name),
      _ => None,
    }
  }
  pub fn render(&self) -> String {
    match self {
      Op::Define { name, mutable, annot, e } => format!(
        "{}{}{} := {}", if *mutable { "~" } else { "" }, name,
        annot.as_ref().map(|a| format!("<{}>", a)).unwrap_or_default(), e.render()),
      Op::Assign { name, e } => format!("{} = {}", name, e.render()),
      Op::IdxAssign { name, sub, e } => format!("{}{} = {}", name, sub.render(), e.render()),
      Op::OpAssign { name, sub, op, e } => format!(
        "{}{} {}= {}", name, sub.as_ref().map(|s| s.render()).unwrap_or_default(), op.sym(), e.render()),
      Op::FieldAssign { name, field, e } => format!("{}.{} = {}", name, field, e.render()),
      Op::TupAssign { name, pos, e } => format!("{}.{} = {}", name, pos, e.render()),
      Op::Destructure { names, e } => format!("({}) := {}", names.join(", "), e.render()),
      Op::Read { e } => e.render(),
      Op::MapAssign { name, key, e } => format!("{}{{{}}} = {}", name, render_lit(key), e.render()),
      Op::SelOpAssign { name, sel, op, e } => format!("{}{} {}= {}", name, sel, op.sym(), e.render()),
      Op::Raw { text } => text.clone(),
    }
  }
}

impl Expr {
  pub fn render(&self) -> String {
    match self {
      Expr::Lit(v) => render_lit(v),
      Expr::Var(n) => n.clone(),
      Expr::VarOp(n, op, v) => format!("{} {} {}", n, op.sym(), render_lit(v)),
      Expr::VarVar(a, op, b) => format!("{} {} {}", a, op.sym(), b),
      Expr::VarIdx(n, s) => format!("{}{}", n, s.render()),
      Expr::Field(n, f) => format!("{}.{}", n, f),
      Expr::TupElem(n, k) => format!("{}.{}", n, k),
      Expr::LitOp(a, op, b) => format!("{} {} {}", render_lit(a), op.sym(), render_lit(b)),
      Expr::MapGet(n, k) => format!("{}{{{}}}", n, render_lit(k)),
      Expr::Call(f, args) => format!("{}({})", f, args.iter().map(|a| a.render()).collect::<Vec<_>>().join(", ")),
      Expr::Built(kind, els) => {
        let names = ["a", "b", "c", "d"];
        match kind.as_str() {
          "tuple" => format!("({})", els.iter().map(|e| e.render()).collect::<Vec<_>>().join(", ")),
          // the first two elements form an inner tuple: `((x, 1), 2)`
          "nested-tuple" => format!("(({}, {}){})", els[0].render(), els.get(1).map(|e| e.render()).unwrap_or("0".into()), els.iter().skip(2).map(|e| format!(", {}", e.render())).collect::<String>()),
          "set" => format!("{{{}}}", els.iter().map(|e| e.render()).collect::<Vec<_>>().join(", ")),
          // a match expression whose only arm hands back the matched variable
          "match-id" => format!("{}? | * => {}.", els[0].render(), els[0].render()),
          "record" => format!("{{{}}}", els.iter().enumerate().map(|(i, e)| format!("{}: {}", names[i % 4], e.render())).collect::<Vec<_>>().join(", ")),
          "map" => format!("{{{}}}", els.iter().enumerate().map(|(i, e)| format!("\"{}\": {}", names[i % 4], e.render())).collect::<Vec<_>>().join(", ")),
          // two f64 columns, elements row by row (an odd last element is dropped by the generator)
          "table" => format!("|a<f64> b<f64>| {} |", els.chunks(2).map(|r| r.iter().map(|e| e.render()).collect::<Vec<_>>().join(" ")).collect::<Vec<_>>().join(" | ")),
          _ => format!("[{}]", els.iter().map(|e| e.render()).collect::<Vec<_>>().join(" ")),
        }
      }
    }
  }
  pub fn form(&self) -> &'static str {
    match self {
      Expr::Lit(_) => "lit", Expr::Var(_) => "var", Expr::VarOp(..) => "var-op-lit", Expr::VarVar(..) => "var-op-var",
      Expr::VarIdx(..) => "var-idx", Expr::Field(..) => "field", Expr::TupElem(..) => "tuple-elem", Expr::LitOp(..) => "lit-op-lit", Expr::MapGet(..) => "map-get", Expr::Call(..) => "call",
      Expr::Built(k, _) => match k.as_str() { "tuple" => "built-tuple", "record" => "built-record", "map" => "built-map", "table" => "built-table", "nested-tuple" => "built-nested-tuple", "set" => "built-set", "match-id" => "built-match-id", _ => "built-mat" },
    }
  }
  pub fn vars(&self) -> Vec<&str> {
    match self {
      Expr::Lit(_) | Expr::LitOp(..) => vec![],
      Expr::Var(n) | Expr::VarOp(n, ..) | Expr::Field(n, _) | Expr::TupElem(n, _) | Expr::MapGet(n, _) => vec![n],
      Expr::VarVar(a, _, b) => vec![a, b],
      Expr::Call(_, args) => args.iter().flat_map(|a| a.vars()).collect(),
      Expr::Built(_, els) => els.iter().filter_map(|e| if let BuiltElem::Var(n) = e { Some(n.as_str()) } else { None }).collect(),
      Expr::VarIdx(n, s) => {
        let mut v = vec![n.as_str()];
        match s {
          Sub::One(Ix::Var(x)) => v.push(x),
          Sub::Two(a, b) => { if let Ix::Var(x) = a { v.push(x) } if let Ix::Var(x) = b { v.push(x) } }
          _ => {}
        }
        v
      }
    }
  }
}

fn render_f64(x: f64) -> String {
  if x.is_nan() || x.is_infinite() { return "0".into(); } // never generated
  if x == x.trunc() && x.abs() < 1e15 { format!("{}", x as i64) } else { format!("{}", x) }
}

/// Mech source text of a literal whose evaluation must yield exactly `v`.
pub fn render_lit(v: &SV) -> String {
  match v {
    SV::F64(b) => render_f64(f64::from_bits(*b)),
    SV::F32(b) => format!("{}<f32>", render_f64(f32::from_bits(*b) as f64)),
    SV::Int(k, x) => if k.is_unsigned() { format!("{}{}", x, k.name()) } else { format!("{}<{}>", x, k.name()) },
    SV::Bool(b) => b.to_string(),
    SV::Str(s) => format!("\"{}\"", s),
    SV::Mat(_, r, c, d) => {
      let mut rows = vec![];
      for i in 0..*r {
        let mut row = vec![];
        for j in 0..*c { row.push(render_lit(&d[j * r + i])); }
        rows.push(row.join(" "));
      }
      format!("[{}]", rows.join("; "))
    }
    SV::Record(f) => format!("{{{}}}", f.iter().map(|(n, _, v)| format!("{}: {}", n, render_lit(v))).collect::<Vec<_>>().join(", ")),
    SV::Tuple(e) => format!("({})", e.iter().map(render_lit).collect::<Vec<_>>().join(", ")),
    SV::Set(_, e) => format!("{{{}}}", e.iter().map(render_lit).collect::<Vec<_>>().join(", ")),
    SV::Map(kv) => format!("{{{}}}", kv.iter().map(|(k, v)| format!("{}: {}", render_lit(k), render_lit(v))).collect::<Vec<_>>().join(", ")),
    SV::Table(rows, cols) => {
      let mut s = format!("|{}|", cols.iter().map(|(n, k, _)| format!("{}<{}>", n, k)).collect::<Vec<_>>().join(" "));
      for i in 0..*rows {
        s.push_str(&format!(" {} |", cols.iter().map(|(_, _, d)| render_lit(&d[i])).collect::<Vec<_>>().join(" ")));
      }
      s
    }
    other => format!("\"unrenderable {}\"", other.kind_tag()),
  }
}

/// Render validation: does the parsed tree hold exactly the intended statement?
pub fn tree_matches(op: &Op, tree: &Program) -> bool {
  let items = match crate::node::code_items(tree) { Some(i) => i, None => return false };
  if let Op::Raw { .. } = op { return !items.is_empty() && items.iter().all(|i| matches!(i, MechCode::FunctionDefine(_))); }
  if items.len() != 1 { return false; }
  match (op, items[0]) {
    (Op::Define { name, mutable, annot, .. }, MechCode::Statement(Statement::VariableDefine(d))) =>
      d.var.name.to_string() == *name && d.mutable == *mutable && d.var.kind.is_some() == annot.is_some(),
    (Op::Assign { name, .. }, MechCode::Statement(Statement::VariableAssign(a))) =>
      a.target.name.to_string() == *name && a.target.subscript.is_none(),
    (Op::IdxAssign { name, sub, .. }, MechCode::Statement(Statement::VariableAssign(a))) =>
      a.target.name.to_string() == *name && match &a.target.subscript {
        Some(s) if s.len() == 1 => match &s[0] {
          Subscript::Bracket(b) => b.len() == match sub { Sub::One(_) => 1, Sub::Two(..) => 2 },
          _ => false,
        },
        _ => false,
      },
    (Op::FieldAssign { name, field, .. }, MechCode::Statement(Statement::VariableAssign(a))) =>
      a.target.name.to_string() == *name && match &a.target.subscript {
        Some(s) if s.len() == 1 => matches!(&s[0], Subscript::Dot(id) if id.to_string() == *field),
        _ => false,
      },
    (Op::TupAssign { name, .. }, MechCode::Statement(Statement::VariableAssign(a))) =>
      a.target.name.to_string() == *name && match &a.target.subscript {
        Some(s) if s.len() == 1 => matches!(&s[0], Subscript::DotInt(_)),
        _ => false,
      },
    (Op::OpAssign { name, sub, .. }, MechCode::Statement(Statement::OpAssign(a))) =>
      a.target.name.to_string() == *name && a.target.subscript.is_some() == sub.is_some(),
    (Op::Destructure { names, .. }, MechCode::Statement(Statement::TupleDestructure(t))) =>
      t.vars.iter().map(|v| v.to_string()).collect::<Vec<_>>() == *names,
    (Op::Read { .. }, MechCode::Expression(_)) => true,
    (Op::Raw { .. }, _) => true,
    (Op::SelOpAssign { name, .. }, MechCode::Statement(Statement::OpAssign(a))) =>
      a.target.name.to_string() == *name && match &a.target.subscript {
        Some(s) if s.len() == 1 => matches!(&s[0], Subscript::Dot(_) | Subscript::DotInt(_) | Subscript::Brace(_)),
        _ => false,
      },
    (Op::MapAssign { name, .. }, MechCode::Statement(Statement::VariableAssign(a))) =>
      a.target.name.to_string() == *name && match &a.target.subscript {
        Some(s) if s.len() == 1 => matches!(&s[0], Subscript::Brace(b) if b.len() == 1),
        _ => false,
      },
    _ => false,
  }
}
