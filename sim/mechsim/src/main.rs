use mechsim::check::*;
use mechsim::*;
use serde_json::{json, Value as J};
use std::path::PathBuf;
use std::time::Duration;

#[global_allocator]
static GLOBAL: alloc::Counting = alloc::Counting;

/// `/verif`, unless MECHSIM_VERIF points a shadow run (seeded-change regression in a scratch tree) elsewhere.
fn verif_dir() -> String { std::env::var("MECHSIM_VERIF").unwrap_or_else(|_| "/verif".to_string()) }

fn arg<'a>(args: &'a [String], name: &str) -> Option<&'a str> {
  args.iter().position(|a| a == name).and_then(|i| args.get(i + 1)).map(|s| s.as_str())
}
fn flag(args: &[String], name: &str) -> bool { args.iter().any(|a| a == name) }

fn main() {
  let args: Vec<String> = std::env::args().collect();
  let code = match args.get(1).map(|s| s.as_str()) {
    Some("probe") => { probe(&args[2..]); 0 }
    Some("seamtest") => { seamtest(); 0 }
    Some("worker") => { worker(&args[2..]); 0 }
    Some("check") => check_cmd(&args[2..]),
    Some("replay") => replay_cmd(&args[2..]),
    Some("baseline") => baseline_cmd(&args[2..]),
    Some("digests") => digests_cmd(&args[2..]),
    Some("w3-emit") => { node::install_silent_panic_hook(); let t = args[2].clone(); match hashseed::on_node_thread(1, move || w3::produce(&t)) { Ok(w3::Produced::File(b, _)) => { println!("{}", w3::hex(&b)); 0 } _ => { eprintln!("no file"); 1 } } }
    _ => {
      eprintln!("usage: mechsim check --property Cxx --tier quick|thorough [--seed N] | replay <file> | probe <file> | baseline w1 | digests --property Cxx --runs N");
      2
    }
  };
  std::process::exit(code);
}

fn seed_from(args: &[String]) -> u64 {
  arg(args, "--seed").and_then(|s| s.parse().ok())
    .or_else(|| std::env::var("VERIF_SEED").ok().and_then(|s| s.parse().ok()))
    .unwrap_or(1)
}

fn known_sigs() -> Vec<(String, String)> {
  load_known(&PathBuf::from(verif_dir()).join("known_findings.jsonl")).into_iter().filter(|k| k.status == "known").map(|k| (k.property, k.signature)).collect()
}

// -------------------------------------------------------------------------------------------------
// worker

fn worker(args: &[String]) {
  node::install_silent_panic_hook();
  supervisor::limit_address_space(16 << 30);
  alloc::set_hard_cap(2 << 30);
  let world = arg(args, "--world").unwrap_or("W1").to_string();
  let seed: u64 = arg(args, "--seed").and_then(|s| s.parse().ok()).unwrap_or(1);
  let known = known_sigs();
  match world.as_str() {
    "W1" => {
      let profile: &'static str = if arg(args, "--profile") == Some("C04") { "C04" } else { "C05" };
      let discover = flag(args, "--discover");
      let supported = if discover { std::sync::Arc::new(Default::default()) } else { w1::load_supported(&format!("{}/baselines/w1_supported.txt", verif_dir())) };
      supervisor::worker_loop(|k| w1::worker_run(seed, k, profile, supported.clone(), &known, discover));
    }
    "W2" => {
      let corpus = std::sync::Arc::new(corpus::load());
      supervisor::worker_loop(|k| w2::worker_run(seed, k, &corpus));
    }
    "W5" => {
      supervisor::worker_loop(|k| w5::worker_run(seed, k));
    }
    "W3" => {
      let thorough = flag(args, "--thorough");
      let corpus = std::sync::Arc::new(corpus::load());
      let bb = arg(args, "--blackbox").map(|s| s.to_string());
      supervisor::worker_loop(|k| w3::worker_run(seed, k, &corpus, thorough, bb.as_deref()));
    }
    w => { eprintln!("unknown world {}", w); std::process::exit(2); }
  }
}

// -------------------------------------------------------------------------------------------------
// check

fn check_cmd(args: &[String]) -> i32 {
  let property = arg(args, "--property").unwrap_or("").to_string();
  let tier = arg(args, "--tier").map(|s| s.to_string()).or_else(|| std::env::var("VERIF_TIER").ok()).unwrap_or("quick".into());
  let tier = if tier == "thorough" { "thorough".to_string() } else { "quick".to_string() };
  let seed = seed_from(args);
  let thorough = tier == "thorough";
  let runs_override: Option<u64> = arg(args, "--runs").and_then(|s| s.parse().ok());
  let budget_override: Option<u64> = arg(args, "--budget-s").and_then(|s| s.parse().ok());
  let base = PathBuf::from(verif_dir());
  let common_real = vec![
    "mech-syntax parser (nom)".to_string(), "mech-interpreter (tree-walking interpreter, statements, subscripts)".to_string(),
    "mech-core values/symbol table/plan".to_string(), "stdlib kernels in machines/* and interpreter/src/stdlib".to_string(),
  ];
  let common_stub = vec!["none of Mech is stubbed; simulated: RandomState hash-seed source (getrandom seam), statement schedule, fault placement".to_string()];
  let mut spec = match property.as_str() {
    "C04" | "C05" => {
      let c04 = property == "C04";
      CheckSpec {
        property: property.clone(), world: "W1".into(), tier: tier.clone(), seed, level: "exploration".into(),
        rule: if c04 {
          "W1 session world, C04 profile: one real Interpreter per run on a fresh thread with a PRNG-chosen hash seed; a PRNG-generated session of 3-40 statements biased to mutable matrix targets (element kinds f64/f32/u8..u128/i8..i128/bool/string, a few per run; shapes up to 5x5, i.e. every fixed-size and dynamic storage class) walking the index-form grid (scalar, index vector, inclusive/exclusive range, ':', logical mask, index held in a variable; one or two positions) with scalar and vector sources, assignments and op-assignments, several per variable, faults (out-of-range at a chosen position, wrong source kind, failing source, undefined/immutable target) placed inside statements at a per-run rate 0-40%; after every statement the full symbol table is compared with a reference store (frame condition, failure atomicity, read-back). A run is non-trivial if at least one statement changed the store; distinct = distinct event-log digest (statement text, outcome, store digest per step).".into()
        } else {
          "W1 session world, C05 profile: one real Interpreter per run on a fresh thread with a PRNG-chosen hash seed; a PRNG-generated session of 3-40 statements over 2-5 names and value classes scalar/matrix/record/tuple/set/table/map (records and tuples may nest a matrix or record): define, mutable define, kind-annotated define, define-from-variable/field/element/map-entry (aliasing chains), assign, indexed assign, op-assign, field / tuple-element / map-entry assign, selector op-assign forms that Mech does not implement, tuple destructure, reads; faults are real statements engineered to fail at a chosen internal site (redefinition, undefined/immutable target, failing source expression, index out of range at position k, wrong kind, name collision / too many names at position k of a destructure, unconvertible annotation) at a per-run rate 0-40%; after every statement outcome and full symbol table are compared with a reference store with copy semantics. A run is non-trivial if at least one statement changed the store; distinct = distinct event-log digest.".into()
        },
        worker_args: vec!["worker".into(), "--world".into(), "W1".into(), "--profile".into(), property.clone(), "--seed".into(), seed.to_string()],
        runs: if thorough { 1_500_000 } else { 60_000 },
        budget: Duration::from_secs(if thorough { 600 } else { 55 }),
        chunk: 32,
        evidence: base.join(format!("evidence/{}.json", property)),
        replays: base.join(format!("replays/{}", property)),
        known: base.join("known_findings.jsonl"),
        components_real: common_real, components_stub: common_stub,
        assumptions: vec![
          "the reference store encodes C04/C05 as stated; combinations the statement does not pin down are accepted either way (rejected with the store unchanged, or accepted with the frame condition on every other binding)".into(),
          "baselines/w1_supported.txt (derived from the pinned tree) lists the combinations that must keep being accepted".into(),
          "heap addresses are not controlled, only kept out of observations (structural snapshots)".into(),
        ],
        expected_reach: if c04 {
          vec!["fault:f2-undefined-target", "fault:f3-immutable-target", "fault:f4-arith", "fault:f4-source-fails", "fault:f5-index-oob", "fault:f6-source-kind", "reach:op:idx-assign", "reach:op:idx-op-assign", "reach:op:op-assign", "reach:op:read"].into_iter().map(String::from).collect()
        } else {
          vec!["fault:f1-redefine", "fault:f2-undefined-target", "fault:f3-immutable-target", "fault:f4-source-fails", "fault:f4-arith", "fault:f5-index-oob", "fault:f5-tuple-index-oob", "fault:f6-source-kind", "fault:f6-no-such-field", "fault:f7-annotation", "fault:f8-name-collision", "fault:f8-too-many-names", "fault:f8-not-a-tuple",
               "reach:op:define", "reach:op:mdefine", "reach:op:assign", "reach:op:idx-assign", "reach:op:op-assign", "reach:op:field-assign", "reach:op:tuple-assign", "reach:op:destructure", "reach:op:read"].into_iter().map(String::from).collect()
        },
        exhaustive: false,
        extra: json!({}),
      }
    }
    "C17" => {
      CheckSpec {
        property: property.clone(), world: "W5".into(), tier: tier.clone(), seed, level: "exploration".into(),
        rule: "W5 state-machine world: one real Interpreter per run (fresh thread, PRNG-chosen hash seed, trace on) given a generated machine — either an array-pattern machine (a Scan state over a [u64] vector with pair, head/rest and empty-vector arms, with and without guards, consuming or not), a general array-pattern machine (2-7 ordered arms over the Scan state, each with an empty / exact-length / `| rest` / `…` spread pattern with prefix and suffix elements, repeated names meaning equality, literal elements, optional guards with fall-through to later arms, targets that rebuild the vector from the bound names) or 1-4 states, 1-3 u64 payload fields, per state a direct transition or 1-4 guarded branches (comparisons of fields with constants or other fields, several of which may hold at once, usually a final wildcard), payload updates (field, constant, field +/- constant, field +/- field), self-loops and cycles, inputs from {0,1,2,3,4,5,7,10} — and 2-5 invocations in the same session, each with a PRNG-chosen transition budget (Interpreter.max_steps in {1,2,3,5,8,13,30,100,1000}). Ill-formed variants: a transition to an undeclared state, a transition to a declared state that has no arm, a state (possibly the start state) that has an arm but is left out of the specification, an output arm of another kind than declared, an argument of the wrong kind, a wrong argument count, and — for array machines whose input is declared with a sized kind `[u64]:1,N` — a vector of another length or a column vector. Oracle: a reference simulation of the transition system (checked u64 arithmetic, cycle detection): result value, the sequence of (state, payload) parsed from the recorded [trace][fsm][step] events, the limit error for machines that never terminate (bounded liveness in steps), rejection of every ill-formed variant, and the next invocation after a failed or limited one is checked like any other; an invocation that has not answered after 8 s of wall clock (a run takes milliseconds) is reported as a machine that was not stopped, provided the replay in a fresh process exceeds the bound again. A run is non-trivial if at least one well-formed invocation terminated within its budget or was stopped by the limit; distinct = digest over machine text, invocations, budgets and outcomes.".into(),
        worker_args: vec!["worker".into(), "--world".into(), "W5".into(), "--seed".into(), seed.to_string()],
        runs: if thorough { 600_000 } else { 40_000 },
        budget: Duration::from_secs(if thorough { 480 } else { 50 }),
        chunk: 16,
        evidence: base.join("evidence/C17.json"),
        replays: base.join("replays/C17"),
        known: base.join("known_findings.jsonl"),
        components_real: vec!["mech-syntax parser (state machine grammar)".into(), "mech-interpreter state_machines.rs (execute_fsm_pipe, validation passes, apply_transitions), patterns.rs, tracing.rs".into(), "stdlib comparison/arithmetic kernels for u64".into()],
        components_stub: vec!["none of Mech is stubbed; simulated: the transition budget (Interpreter.max_steps), hash seed, the schedule of invocations in one session".into()],
        assumptions: vec![
          "a machine that terminates only beyond its budget may return the limit error or the correct value".into(),
          "a state in which no guard holds is not pinned down by C17 and is not judged (generated machines usually end their branches with a wildcard)".into(),
          "array-pattern states are generated as one family (a Scan state destructuring a [u64] vector with [a, b | tail], [x | rest] and [] arms); the vector itself is not parsed back from the trace, only the accumulator".into(),
        ],
        expected_reach: vec!["reach:terminating".into(), "reach:non-terminating".into(), "fault:transition-limit-fired".into(), "fault:transition-to-undeclared-state".into(), "fault:declared-state-without-arm".into(), "fault:wrong-argument-kind".into(), "fault:wrong-argument-count".into(), "fault:wrong-argument-shape".into(), "fault:transition-to-state-the-specification-does-not-declare".into(), "fault:overflow-inside-transition".into(), "reach:invocation-after-a-failed-one-follows".into(), "reach:array-pattern-machine".into(), "reach:array-pattern-machine-general".into(), "reach:array-spread-with-prefix-and-suffix".into()],
        exhaustive: false,
        extra: json!({}),
      }
    }
    "C19" => {
      let corpus_len = corpus::load().len() as u64;
      CheckSpec {
        property: property.clone(), world: "W2".into(), tier: tier.clone(), seed, level: "exploration".into(),
        rule: format!("W2 replica world: 2-3 real Interpreters per run, each on its own thread with its own PRNG-chosen hash seed (so HashMap/IndexMap iteration orders differ between replicas), fed the same program and then step requests; the PRNG decides which replica executes its next command (commands of different replicas interleave inside one host process, exactly one runs at a time), how each replica's total of 0-12 steps is decomposed (one request for n, n single steps, a random composition, requests for zero steps) and the per-replica profile/trace knobs; per run Interpreter.max_steps may be set to 1-5 (it must not bound step requests; only for programs without a state-machine invocation); a third of the replicas of generated programs get the text line by line, one interpret() per line, as a REPL does; in a third of the runs a second phase follows in which every replica executes the same 1-3 requests for ONE plan element (step(id,n), n split differently per replica, sometimes an id beyond the plan) and stores and answers are compared after each request. Programs: the {} snippets harvested at run time from /repo/tests/*.rs plus the sampler (the first runs walk the corpus in order), and programs generated by W1's generator with and without mutation statements, assignment templates, relational programs (joins, set algebra over random id sets) and hash-order programs (several enums sharing a variant name, wide records and maps). Oracle after every command: replicas that executed the same total number of steps hold equal symbol tables and returned equal results; interpret() outcomes agree; a program whose text certainly contains no assignment/op-assignment is left exactly as interpret left it. A run is non-trivial if interpret succeeded and at least one step was executed; distinct = digest over program, schedule and every replica's outcomes/store digests.", corpus_len),
        worker_args: vec!["worker".into(), "--world".into(), "W2".into(), "--seed".into(), seed.to_string()],
        runs: if thorough { 600_000 } else { corpus_len + 40_000 },
        budget: Duration::from_secs(if thorough { 600 } else { 55 }),
        chunk: 16,
        evidence: base.join("evidence/C19.json"),
        replays: base.join("replays/C19"),
        known: base.join("known_findings.jsonl"),
        components_real: vec!["mech-syntax parser".into(), "mech-interpreter (interpret, Interpreter::step incl. profile and trace paths)".into(), "every stdlib step struct the corpus plans (MechFunctionImpl::solve/out)".into()],
        components_stub: vec!["none of Mech is stubbed; simulated: hash seeds per replica, command interleaving, step decomposition, profile/trace knobs".into()],
        assumptions: vec![
          "a panic or error inside step() ends that replica's part of the run (C19 does not promise its absence)".into(),
          "'contains no assignment' is decided conservatively on the text: any '=' outside := == != <= >= => ..= counts as an assignment".into(),
        ],
        expected_reach: vec!["reach:step-ok".into(), "reach:programs-without-assignment".into(), "reach:programs-with-assignment".into(), "reach:runs-where-steps-changed-state".into(), "fault:step-split".into(), "fault:profile-knob".into(), "fault:trace-knob".into(), "fault:low-transition-budget-knob".into(), "fault:single-element-step".into(), "fault:fed-line-by-line".into(), "fault:step-id-beyond-the-plan".into()],
        exhaustive: false,
        extra: json!({"corpus_programs": corpus_len}),
      }
    }
    "C07" => {
      let corpus_len = corpus::load().len() as u64;
      let mut wa: Vec<String> = vec!["worker".into(), "--world".into(), "W3".into(), "--seed".into(), seed.to_string()];
      if thorough { wa.push("--thorough".into()); }
      CheckSpec {
        property: property.clone(), world: "W3".into(), tier: tier.clone(), seed, level: "fault_enumeration".into(),
        rule: format!("W3 bytecode pipeline: producer node (real Interpreter: interpret + compile) -> storage medium owned by the simulator (byte vector; 1 run in 8 also through a real file and load_program_from_file) -> consumer node (fresh thread, other hash seed: ParsedProgram::from_bytes, decode_const_entries). Corpus: {} programs (every snippet harvested at run time from /repo/tests/interpreter.rs and tests/bytecode.rs plus an operator/kind/shape sampler); the first runs walk the corpus in order, from run 24 on interleaved 3:1 with generated programs (literal-only programs with every constant class and variable-width elements — strings of differing byte lengths and multi-byte characters in matrices, sets, records, tables, maps —, W1 sessions batched into one text, assignment templates, relational programs); after the walk half of the runs are generated. Per emitted file: configuration 0/1 (loader accepts it, to_bytes(from_bytes(b)) == b, decoded header/constants/instructions/features/types equal the compiler's CompileCtx field by field) and then storage faults: truncation (t), single bit flips (b), bursts of 2-32 bits (u) must be rejected; zeroed/0xFF/misdirected sectors (z), appended/duplicated regions (a), random byte strings incl. real header prefixes (r), structure-aware single-field boundary values with the checksum recomputed (s) and random patches with the checksum recomputed (c) must never panic, hang or allocate more than 64 MiB + 64 x file length (counting allocator; hard cap turns it into a worker death attributed to the run), nor burn more than 3 s (+20 ms per KiB) of thread CPU time on one file (CLOCK_THREAD_CPUTIME_ID, not wall clock: a loop whose length comes from a field of the file); structure-aware mutations include both leading words of a constant together (rows x columns: zero times huge). One nesting bomb per file (n): a constant re-typed as set/table and pointed at 2 000-120 000 levels of nested kind tags (matrix-of, set-of: one byte per level; table-with-one-column-of: nine) appended to the blob, checksum valid, fed on a thread with a 2 MiB stack (std's default for spawned threads) — unbounded recursion shows as a dead worker that the supervisor attributes and confirms. {} Read-time faults (i, hook H1 `verif_load_program_from_reader`): 24-63 loads per run through the simulator's reader — short reads (1..n bytes per call), EINTR on every n-th call, EIO at the k-th read, a failing k-th seek, end-of-file before the declared length, and a medium that starts serving other (structurally mutated) bytes after n calls; a third of the benign plans ride on a damaged file. Short reads and EINTR must not change the answer (same program or same error kind as from_bytes on the same bytes); hard faults may only fail the load or leave it identical; nothing may panic, exceed the read-call budget or the allocation limit. Runs that go through a real file additionally write 24 damaged files to tmpfs and demand that load_program_from_file answers exactly like from_bytes (f). A run is non-trivial if a file was emitted and damaged files were fed; distinct = digest over program, fault sequence and loader outcomes.", corpus_len, if thorough { "Thorough tier: t and b are enumerated completely (every length, every bit) for every emitted file of the corpus; the other kinds are seeded samples." } else { "Quick tier: t and b are enumerated completely for the first 24 corpus programs; otherwise all kinds are seeded samples (150-400 per run)." }),
        worker_args: wa,
        runs: if thorough { corpus_len * 4 / 3 + 2_000_000 } else { corpus_len * 4 / 3 + 40_000 },
        budget: Duration::from_secs(if thorough { 900 } else { 55 }),
        chunk: 4,
        evidence: base.join("evidence/C07.json"),
        replays: base.join("replays/C07"),
        known: base.join("known_findings.jsonl"),
        components_real: vec!["mech-syntax parser".into(), "mech-interpreter (interpret, compile)".into(), "mech-core bytecode compiler (CompileCtx::compile, sections, constants)".into(), "mech-core loader (verify_crc_trailer_seek, load_program_from_reader, decode_instructions) and ParsedProgram::{from_bytes,to_bytes,decode_const_entries}".into(), "load_program_from_file on real tmpfs files, intact and damaged (1 run in 8)".into(), "load_program_from_reader behind the simulator's fault-injecting reader (hook H1)".into()],
        components_stub: vec!["none of Mech is stubbed; simulated: storage medium between compiler and loader (byte vector with injected damage), hash seeds of producer and consumer, fault schedule".into()],
        assumptions: vec![
          "C07 names the loader and the constant decoder; run_program is never called on damaged or hostile files".into(),
          "a load that met an injected EIO / failing seek / early EOF may fail or (if the fault fell after the last access) succeed identically; it may never succeed with another program".into(),
          "CRC-32 detects every burst of at most 32 bits, so t/b/u must be rejected outright; for the other kinds only panic/hang/allocation are judged".into(),
          "hang is decided by the loops' own bounds plus the 60 s watchdog backstop".into(),
        ],
        expected_reach: vec!["fault:t".into(), "fault:b".into(), "fault:u".into(), "fault:z".into(), "fault:a".into(), "fault:r".into(), "fault:s".into(), "fault:c".into(), "fault:n".into(), "fault:i".into(), "fault:f".into(), "fault:i:short-read".into(), "fault:i:eintr".into(), "fault:i:eio".into(), "fault:i:seek-failed".into(), "fault:i:early-eof".into(), "fault:i:rewritten-underneath".into(), "reach:files-emitted".into(), "reach:loaded-through-real-file".into()],
        exhaustive: false,
        extra: json!({"corpus_programs": corpus_len}),
      }
    }
    p => { eprintln!("unknown property {}", p); return 2; }
  };
  if let Some(r) = runs_override { spec.runs = r; }
  if let Some(b) = budget_override { spec.budget = Duration::from_secs(b); }
  if let Some(b) = std::env::var("VERIF_BUDGET_S").ok().and_then(|s| s.parse::<u64>().ok()) { spec.budget = Duration::from_secs(b); }
  if let Some(e) = arg(args, "--evidence") { spec.evidence = PathBuf::from(e); }
  // W5 runs take milliseconds and decide hangs themselves (w5::HANG_DEADLINE_S); the supervisor's backstop can be short
  if spec.world == "W5" { supervisor::set_watchdog(30); }
  drive(spec)
}

// -------------------------------------------------------------------------------------------------
// replay

fn replay_cmd(args: &[String]) -> i32 {
  let path = match args.get(0) { Some(p) => p, None => { eprintln!("replay <file>"); return 2; } };
  let text = match std::fs::read_to_string(path) { Ok(t) => t, Err(e) => { eprintln!("cannot read {}: {}", path, e); return 2; } };
  let j: J = match serde_json::from_str(&text) { Ok(j) => j, Err(e) => { eprintln!("bad replay file: {}", e); return 2; } };
  node::install_silent_panic_hook();
  if flag(args, "--in-process") { supervisor::limit_address_space(16 << 30); alloc::set_hard_cap(2 << 30); }
  let want = j["signature"].as_str().or_else(|| j["violation"]["signature"].as_str()).unwrap_or("").to_string();
  if let Some(w) = j["watchdog_s"].as_u64() { supervisor::set_watchdog(w); }
  if j["regenerate"].as_bool() != Some(true) && !flag(args, "--in-process") {
    // execute in a child under the address-space limit and a wall-clock bound, so that an abort or
    // an endless loop inside Mech is observed, not suffered
    return match supervisor::child_with_timeout(&["replay".to_string(), path.to_string(), "--in-process".to_string()], 120) {
      Ok((code, out, err, timed_out)) => {
        print!("{}", out);
        if timed_out { println!("REPRODUCED host-aborted|process|watchdog (no answer within 120 s)"); return 1; }
        match code {
          Some(c @ (0 | 1)) => c,
          Some(2) => { eprint!("{}", err); 2 }
          _ => { println!("REPRODUCED host-aborted|process|{} ({})", if err.contains("ALLOC-REFUSED") { "allocation-refused" } else { "died" }, node::trunc(err.trim(), 200)); 1 }
        }
      }
      Err(e) => { eprintln!("cannot spawn: {}", e); 2 }
    };
  }
  if j["regenerate"].as_bool() == Some(true) {
    // crash replays: re-run (seed, run) through the generator in a fresh worker
    let wargs: Vec<String> = j["worker_args"].as_array().map(|a| a.iter().filter_map(|x| x.as_str().map(|s| s.to_string())).collect()).unwrap_or_default();
    let k = j["run"].as_u64().unwrap_or(0);
    return match supervisor::run_single(wargs, k) {
      Err(why) => { println!("REPRODUCED {} ({})", want, why); 1 }
      Ok(_) => { println!("not reproduced: run {} completed", k); 0 }
    };
  }
  match j["world"].as_str() {
    Some("W1") => {
      let ops: Vec<w1::ops::Op> = match serde_json::from_value(j["ops"].clone()) { Ok(o) => o, Err(e) => { eprintln!("bad ops: {}", e); return 2; } };
      let hs = j["hash_seed"].as_u64().unwrap_or(1);
      let props: Vec<String> = j["violation"]["properties"].as_array().map(|a| a.iter().filter_map(|x| x.as_str().map(|s| s.to_string())).collect()).unwrap_or(vec!["C04".into(), "C05".into()]);
      let supported = w1::load_supported(&format!("{}/baselines/w1_supported.txt", verif_dir()));
      let r = w1::run::execute_explicit(ops, hs, props, supported, &known_sigs());
      for l in &r.log { println!("{}", l); }
      match r.violation {
        Some(v) if want.is_empty() || v.signature == want => { println!("REPRODUCED {}", v.signature); 1 }
        Some(v) => { println!("different violation: {} (wanted {})", v.signature, want); 1 }
        None => { println!("not reproduced"); 0 }
      }
    }
    Some("W5") => {
      match w5::replay(&j) {
        Some(sig) if want.is_empty() || sig == want => { println!("REPRODUCED {}", sig); 1 }
        Some(sig) => { println!("different violation: {} (wanted {})", sig, want); 1 }
        None => { println!("not reproduced"); 0 }
      }
    }
    Some("W2") => {
      match w2::replay(&j) {
        Some(sig) if want.is_empty() || sig == want => { println!("REPRODUCED {}", sig); 1 }
        Some(sig) => { println!("different violation: {} (wanted {})", sig, want); 1 }
        None => { println!("not reproduced"); 0 }
      }
    }
    Some("W3") => {
      match w3::replay_in_process(&j) {
        Some(sig) => { println!("REPRODUCED {}", sig); 1 }
        None => { println!("not reproduced"); 0 }
      }
    }
    w => { eprintln!("replay: unknown world {:?}", w); 2 }
  }
}

// -------------------------------------------------------------------------------------------------
// baseline discovery: which combinations does the current tree accept (and never reject)?

fn baseline_cmd(args: &[String]) -> i32 {
  let runs: u64 = arg(args, "--runs").and_then(|s| s.parse().ok()).unwrap_or(400_000);
  let mut ok = std::collections::BTreeSet::new();
  let mut err = std::collections::BTreeSet::new();
  for profile in ["C04", "C05"] {
    for seed in [11u64, 12] {
      let wargs: Vec<String> = vec!["worker".into(), "--world".into(), "W1".into(), "--profile".into(), profile.into(), "--seed".into(), seed.to_string(), "--discover".into()];
      let agg = supervisor::run_batch(wargs, 0, runs, supervisor::default_jobs(), Duration::from_secs(600), 64).expect("batch");
      if let Some(s) = agg.sets.get("combos_ok") { ok.extend(s.iter().cloned()); }
      if let Some(s) = agg.sets.get("combos_err") { err.extend(s.iter().cloned()); }
      eprintln!("profile {} seed {}: runs {} ok-combos {} err-combos {}", profile, seed, agg.runs, ok.len(), err.len());
    }
  }
  println!("# W1 supported-combination baseline: combinations accepted at least once and never rejected");
  println!("# generated by `mechsim baseline` on the pinned tree; reviewed; one key per line");
  for c in ok.iter() { if !err.contains(c) { println!("{}", c); } }
  eprintln!("--- combos both accepted and rejected (left as 'either'):");
  for c in ok.iter() { if err.contains(c) { eprintln!("{}", c); } }
  0
}

/// Per-run digests for the determinism self-test.
fn digests_cmd(args: &[String]) -> i32 {
  let property = arg(args, "--property").unwrap_or("C05").to_string();
  let runs: u64 = arg(args, "--runs").and_then(|s| s.parse().ok()).unwrap_or(200);
  let seed = seed_from(args);
  let jobs: usize = arg(args, "--jobs").and_then(|s| s.parse().ok()).unwrap_or(supervisor::default_jobs());
  let wargs: Vec<String> = match property.as_str() {
    "C04" | "C05" => vec!["worker".into(), "--world".into(), "W1".into(), "--profile".into(), property.clone(), "--seed".into(), seed.to_string()],
    "C07" => vec!["worker".into(), "--world".into(), "W3".into(), "--seed".into(), seed.to_string()],
    "C19" => vec!["worker".into(), "--world".into(), "W2".into(), "--seed".into(), seed.to_string()],
    "C17" => vec!["worker".into(), "--world".into(), "W5".into(), "--seed".into(), seed.to_string()],
    p => { eprintln!("unknown property {}", p); return 2; }
  };
  let agg = match supervisor::run_batch(wargs, 0, runs, jobs, Duration::from_secs(3600), 8) { Ok(a) => a, Err(e) => { eprintln!("{}", e); return 2; } };
  let mut d = agg.digest_log.clone();
  d.sort();
  for (k, x) in d { println!("{} {:016x}", k, x); }
  0
}

// -------------------------------------------------------------------------------------------------
// exploration helpers

fn probe(args: &[String]) {
  let mut seed = 1u64;
  let mut batch = false;
  let mut file = None;
  let mut i = 0;
  while i < args.len() {
    match args[i].as_str() {
      "--seed" => { seed = args[i + 1].parse().unwrap(); i += 1; }
      "--batch" => batch = true,
      f => file = Some(f.to_string()),
    }
    i += 1;
  }
  let text = match file.as_deref() {
    Some("-") | None => { let mut s = String::new(); std::io::Read::read_to_string(&mut std::io::stdin(), &mut s).unwrap(); s }
    Some(f) => std::fs::read_to_string(f).unwrap(),
  };
  node::install_silent_panic_hook();
  let r = hashseed::on_node_thread(seed, move || {
    let mut n = node::Node::new();
    let mut prev: sv::Store = vec![];
    let chunks: Vec<String> = if batch { vec![text.clone()] } else { text.lines().map(|l| l.replace("⏎", "\n")).collect() };
    for line in chunks {
      if line.trim() == "----" { n = node::Node::new(); prev = vec![]; println!("---- new session"); continue; }
      if line.trim().is_empty() { continue; }
      let tree = node::parse_cached(&line);
      let is_code = tree.as_ref().ok().and_then(|t| node::code_items(t).map(|c| c.len()));
      let o = n.exec_text(&line);
      println!(">> {}\n   code_items={:?}  {}", line, is_code, o.show());
      let st = n.store();
      for (name, m, v) in &st {
        if !prev.iter().any(|(pn, pm, pv)| pn == name && pm == m && pv == v) { println!("      {}{} = {}", if *m { "~" } else { "" }, name, v.show()); }
      }
      for (pn, _, _) in &prev { if !st.iter().any(|(n2, _, _)| n2 == pn) { println!("      {} REMOVED", pn); } }
      prev = st;
    }
  });
  if let Err(e) = r { println!("node thread panicked: {}", e); }
}

fn seamtest() {
  for s in [1u64, 2, 1, 2, 3] {
    let o = hashseed::on_node_thread(s, || hashseed::probe_order()).unwrap();
    println!("seed {} -> {:?}", s, o);
  }
}
