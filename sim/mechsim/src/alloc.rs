//! Counting allocator: records the largest single request (so "allocates without bound" is a
//! number, not an OOM kill) and refuses requests above a hard cap, which makes the process abort
//! in a way the supervisor attributes to the run in flight.

use std::alloc::{GlobalAlloc, Layout, System};
use std::sync::atomic::{AtomicUsize, Ordering};

pub struct Counting;

pub static LARGEST: AtomicUsize = AtomicUsize::new(0);
pub static HARD_CAP: AtomicUsize = AtomicUsize::new(usize::MAX);

unsafe impl GlobalAlloc for Counting {
  unsafe fn alloc(&self, l: Layout) -> *mut u8 {
    let s = l.size();
    if s > LARGEST.load(Ordering::Relaxed) { LARGEST.fetch_max(s, Ordering::Relaxed); }
    if s > HARD_CAP.load(Ordering::Relaxed) { note(s); return std::ptr::null_mut(); }
    System.alloc(l)
  }
  unsafe fn dealloc(&self, p: *mut u8, l: Layout) { System.dealloc(p, l) }
  unsafe fn alloc_zeroed(&self, l: Layout) -> *mut u8 {
    let s = l.size();
    if s > LARGEST.load(Ordering::Relaxed) { LARGEST.fetch_max(s, Ordering::Relaxed); }
    if s > HARD_CAP.load(Ordering::Relaxed) { note(s); return std::ptr::null_mut(); }
    System.alloc_zeroed(l)
  }
  unsafe fn realloc(&self, p: *mut u8, l: Layout, new: usize) -> *mut u8 {
    if new > LARGEST.load(Ordering::Relaxed) { LARGEST.fetch_max(new, Ordering::Relaxed); }
    if new > HARD_CAP.load(Ordering::Relaxed) { note(new); return std::ptr::null_mut(); }
    System.realloc(p, l, new)
  }
}

fn note(size: usize) {
  // raw write(2): no allocation, no locks
  let mut buf = [0u8; 64];
  let prefix = b"ALLOC-REFUSED bytes=";
  let mut n = 0;
  for b in prefix { buf[n] = *b; n += 1; }
  let mut digits = [0u8; 24];
  let mut d = 0;
  let mut x = size;
  if x == 0 { digits[0] = b'0'; d = 1; }
  while x > 0 { digits[d] = b'0' + (x % 10) as u8; x /= 10; d += 1; }
  while d > 0 { d -= 1; buf[n] = digits[d]; n += 1; }
  buf[n] = b'\n'; n += 1;
  unsafe { libc::write(2, buf.as_ptr() as *const libc::c_void, n); }
}

pub fn reset_largest() { LARGEST.store(0, Ordering::Relaxed); }
pub fn largest() -> usize { LARGEST.load(Ordering::Relaxed) }
pub fn set_hard_cap(bytes: usize) { HARD_CAP.store(bytes, Ordering::Relaxed); }
