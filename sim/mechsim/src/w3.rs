//! W3 — the bytecode pipeline: producer node (interpret + compile) -> storage medium owned by the
//! simulator -> consumer node (fresh interpreter thread, other hash seed: from_bytes,
//! decode_const_entries). Decides C07: exact round trip of emitted files, rejection of damaged
//! files, and "no byte sequence makes the loader or the constant decoder panic, hang or allocate
//! without bound".

use crate::node::*;
use crate::rng::{Digest, Rng};
use mech_core::*;
use serde::{Deserialize, Serialize};
use serde_json::{json, Value as J};
use std::collections::BTreeMap;
use std::panic::{catch_unwind, AssertUnwindSafe};

pub const WORLD_ID: u64 = 3;
pub const HEADER_SIZE: usize = 129;

// (name, offset, width)
pub const HEADER_FIELDS: [(&str, usize, usize); 22] = [
  ("magic", 0, 4), ("version", 4, 1), ("mech_ver", 5, 2), ("flags", 7, 2), ("reg_count", 9, 4), ("instr_count", 13, 4),
  ("feature_count", 17, 4), ("feature_off", 21, 8), ("types_count", 29, 4), ("types_off", 33, 8),
  ("const_count", 41, 4), ("const_tbl_off", 45, 8), ("const_tbl_len", 53, 8), ("const_blob_off", 61, 8), ("const_blob_len", 69, 8),
  ("symbols_len", 77, 8), ("symbols_off", 85, 8), ("instr_off", 93, 8), ("instr_len", 101, 8), ("dict_off", 109, 8), ("dict_len", 117, 8),
  ("reserved", 125, 4),
];

fn rd(b: &[u8], off: usize, w: usize) -> u64 {
  let mut v = 0u64;
  for i in 0..w { if off + i < b.len() { v |= (b[off + i] as u64) << (8 * i); } }
  v
}
fn le(v: u64, w: usize) -> Vec<u8> { v.to_le_bytes()[..w].to_vec() }
fn header_field(b: &[u8], name: &str) -> u64 {
  let (_, off, w) = HEADER_FIELDS.iter().find(|(n, _, _)| *n == name).unwrap();
  rd(b, *off, *w)
}

#[derive(Clone, Debug, Serialize, Deserialize, PartialEq)]
pub struct Mutation {
  /// fault kind: t truncation, b bit flip, u burst, z sector, a append/duplicate, r random bytes, s structure-aware (checksum recomputed), c random patch (checksum recomputed)
  pub kind: String,
  pub label: String,
  pub edits: Vec<(usize, Vec<u8>)>,
  pub truncate_to: Option<usize>,
  pub append: Vec<u8>,
  pub replace_all: Option<Vec<u8>>,
  pub fix_crc: bool,
}

impl Mutation {
  fn new(kind: &str, label: String) -> Mutation {
    Mutation { kind: kind.to_string(), label, edits: vec![], truncate_to: None, append: vec![], replace_all: None, fix_crc: false }
  }
  pub fn apply(&self, orig: &[u8]) -> Vec<u8> {
    let mut b = match &self.replace_all { Some(r) => r.clone(), None => orig.to_vec() };
    for (off, bytes) in &self.edits {
      for (i, x) in bytes.iter().enumerate() { if off + i < b.len() { b[off + i] = *x; } }
    }
    if let Some(t) = self.truncate_to { b.truncate(t); }
    b.extend_from_slice(&self.append);
    if self.fix_crc && b.len() >= 4 {
      let n = b.len() - 4;
      let crc = crc32fast::hash(&b[..n]);
      b[n..].copy_from_slice(&crc.to_le_bytes());
    }
    b
  }
}

#[derive(Clone, Debug)]
pub struct CtxSummary {
  pub next_reg: u32,
  pub instr_count: usize,
  pub instr_bytes: Vec<u8>,
  pub const_entries: Vec<(u32, u8, u8, u64, u64)>,
  pub const_blob: Vec<u8>,
  pub features: Vec<u64>,
  pub types: Vec<(u16, Vec<u8>)>,
}

pub enum Produced {
  NoParse,
  InterpretFailed(String),
  CompileFailed(String),
  CompilePanicked(String),
  File(Vec<u8>, CtxSummary),
}

/// Producer node: interpret the program and compile its plan. Runs on a node thread.
pub fn produce(text: &str) -> Produced {
  let tree = match parse_cached(text) { Ok(t) => t, Err(_) => return Produced::NoParse };
  let mut n = Node::new();
  match n.interpret(&tree) {
    Outcome::Ok(_) => {}
    o => return Produced::InterpretFailed(o.show()),
  }
  take_last_panic();
  let r = catch_unwind(AssertUnwindSafe(|| n.intrp.compile()));
  match r {
    Err(p) => { let m = take_last_panic().map(|(m, l)| format!("{} @{}", m, l)).unwrap_or(crate::hashseed::panic_message(&p)); Produced::CompilePanicked(m) }
    Ok(Err(e)) => Produced::CompileFailed(e.kind_name()),
    Ok(Ok(bytes)) => {
      let ctx = match &n.intrp.context { Some(c) => c, None => return Produced::CompileFailed("no-context".into()) };
      let mut instr_bytes = vec![];
      for i in &ctx.instrs { let _ = i.write_to(&mut instr_bytes); }
      let mut features: Vec<u64> = ctx.features.iter().map(|f| f.as_u64()).collect();
      features.sort();
      let summary = CtxSummary {
        next_reg: ctx.next_reg,
        instr_count: ctx.instrs.len(),
        instr_bytes,
        const_entries: ctx.const_entries.iter().map(|e| (e.type_id, e.enc.clone() as u8, e.align, e.offset, e.length)).collect(),
        const_blob: ctx.const_blob.clone(),
        features,
        types: ctx.types.entries.iter().map(|t| (t.tag.clone() as u16, t.bytes.clone())).collect(),
      };
      Produced::File(bytes, summary)
    }
  }
}

#[derive(Clone, Debug, PartialEq)]
pub enum Fed {
  /// loader rejected: error kind name
  Rejected(String),
  /// loader accepted; constant decoder: Ok(n constants) or Err(kind name)
  Accepted { consts: Result<usize, String>, same_as_original: bool },
  LoaderPanicked(String, String),
  DecoderPanicked(String, String),
}

pub struct FeedResult { pub fed: Fed, pub largest_alloc: usize,
  /// CPU time of the calling thread spent inside the loader and the constant decoder (not wall
  /// clock: the host's load must not leak into a verdict)
  pub cpu_ms: u64 }

fn thread_cpu_ms() -> u64 {
  let mut ts = libc::timespec { tv_sec: 0, tv_nsec: 0 };
  unsafe { libc::clock_gettime(libc::CLOCK_THREAD_CPUTIME_ID, &mut ts); }
  ts.tv_sec as u64 * 1000 + ts.tv_nsec as u64 / 1_000_000
}
/// A damaged file of a few hundred bytes is answered in microseconds; an answer that costs more
/// CPU than this (plus 20 ms per KiB of file) is a loop whose length comes from the file's fields.
pub fn cpu_limit_ms(file_len: usize) -> u64 { 3_000 + 20 * (file_len as u64 / 1024) }

/// Consumer: the loader and the constant decoder on one byte string.
pub fn feed(bytes: &[u8], original: Option<&[u8]>) -> FeedResult {
  take_last_panic();
  crate::alloc::reset_largest();
  let cpu0 = thread_cpu_ms();
  let r = catch_unwind(AssertUnwindSafe(|| ParsedProgram::from_bytes(bytes)));
  let fed = match r {
    Err(p) => { let (m, l) = take_last_panic().unwrap_or((crate::hashseed::panic_message(&p), String::new())); Fed::LoaderPanicked(m, l) }
    Ok(Err(e)) => Fed::Rejected(e.kind_name()),
    Ok(Ok(prog)) => {
      let same = original.map(|o| o == bytes).unwrap_or(false);
      let d = catch_unwind(AssertUnwindSafe(|| prog.decode_const_entries()));
      match d {
        Err(p) => { let (m, l) = take_last_panic().unwrap_or((crate::hashseed::panic_message(&p), String::new())); Fed::DecoderPanicked(m, l) }
        Ok(Ok(v)) => Fed::Accepted { consts: Ok(v.len()), same_as_original: same },
        Ok(Err(e)) => Fed::Accepted { consts: Err(e.kind_name()), same_as_original: same },
      }
    }
  };
  FeedResult { fed, largest_alloc: crate::alloc::largest(), cpu_ms: thread_cpu_ms().saturating_sub(cpu0) }
}

pub fn alloc_limit(file_len: usize) -> usize { (64 << 20) + 64 * file_len }

#[derive(Clone, Debug, Serialize, Deserialize)]
pub struct Violation { pub class: String, pub signature: String, pub summary: String, pub mutation: Option<Mutation> }

pub fn msg_class(m: &str) -> String {
  // strip numbers so that one root cause is one signature
  let mut out = String::new();
  let mut last_digit = false;
  for c in m.chars().take(60) {
    if c.is_ascii_digit() { if !last_digit { out.push('#'); } last_digit = true; } else { out.push(c); last_digit = false; }
  }
  out
}

/// "const[3].offset=0x…" -> "const.offset"; "blob const[4]+0 (4 bytes)=…" -> "blob"; "patch [622]=…" -> "patch"
fn label_class(label: &str) -> String {
  let head = label.split('=').next().unwrap_or("").trim();
  let mut out = String::new();
  let mut skip = false;
  for c in head.chars() {
    match c { '[' => skip = true, ']' => skip = false, ' ' | '+' | '(' => break, c if !skip => out.push(c), _ => {} }
  }
  if out.is_empty() { head.split_whitespace().next().unwrap_or("").to_string() } else { out }
}

/// Oracle for one damaged file.
pub fn judge(m: &Mutation, fr: &FeedResult, file_len: usize) -> Option<Violation> {
  let v = |class: &str, detail: String, summary: String| Some(Violation { class: class.to_string(), signature: format!("{}|{}|{}", class, m.kind, detail), summary, mutation: Some(m.clone()) });
  match &fr.fed {
    Fed::LoaderPanicked(msg, loc) => return v("loader-panicked", format!("{}|{}", loc, msg_class(msg)), format!("{}: loader panicked: {} @{}", m.label, trunc(msg, 120), loc)),
    Fed::DecoderPanicked(msg, loc) => return v("const-decoder-panicked", format!("{}|{}", loc, msg_class(msg)), format!("{}: constant decoder panicked: {} @{}", m.label, trunc(msg, 120), loc)),
    _ => {}
  }
  if fr.cpu_ms > cpu_limit_ms(file_len) {
    return v("decoder-spins", label_class(&m.label), format!("{}: the loader and the constant decoder burnt {} ms of CPU on a {}-byte file (limit {} ms)", m.label, fr.cpu_ms, file_len, cpu_limit_ms(file_len)));
  }
  if fr.largest_alloc > alloc_limit(file_len) {
    return v("unbounded-allocation", label_class(&m.label), format!("{}: largest single allocation {} bytes for a {}-byte file", m.label, fr.largest_alloc, file_len));
  }
  match m.kind.as_str() {
    "t" | "b" | "u" => match &fr.fed {
      Fed::Accepted { .. } => v("damaged-file-accepted", String::new(), format!("{}: loader accepted a file that differs from the emitted one", m.label)),
      _ => None,
    },
    _ => None,
  }
}

// -------------------------------------------------------------------------------------------------
// mutation generators

pub fn gen_truncation(len: usize, to: usize) -> Mutation {
  let mut m = Mutation::new("t", format!("truncate {}->{}", len, to));
  m.truncate_to = Some(to);
  m
}
pub fn gen_bitflip(bit: usize) -> Mutation {
  let mut m = Mutation::new("b", format!("flip bit {}", bit));
  m.edits = vec![]; // filled at apply time needs orig; encode as xor edit below
  m.label = format!("flip bit {}", bit);
  m
}

/// XOR-style mutations need the original bytes: build the edit now.
pub fn bitflip(orig: &[u8], bit: usize) -> Mutation {
  let mut m = Mutation::new("b", format!("flip bit {} (byte {} mask {:#04x})", bit, bit / 8, 1u8 << (bit % 8)));
  m.edits = vec![(bit / 8, vec![orig[bit / 8] ^ (1u8 << (bit % 8))])];
  m
}
pub fn burst(orig: &[u8], rng: &mut Rng) -> Mutation {
  let nbits = orig.len() * 8;
  let blen = 2 + rng.usize(31); // 2..=32 bits
  let start = rng.usize(nbits.saturating_sub(blen).max(1));
  // pattern: first and last bit of the burst set, interior random
  let mut pat: u64 = 1 | (1u64 << (blen - 1));
  for i in 1..blen - 1 { if rng.chance(1, 2) { pat |= 1 << i; } }
  let mut b = orig.to_vec();
  for i in 0..blen { if (pat >> i) & 1 == 1 { let bit = start + i; if bit < nbits { b[bit / 8] ^= 1 << (bit % 8); } } }
  let first = start / 8; let last = ((start + blen - 1) / 8).min(orig.len() - 1);
  let mut m = Mutation::new("u", format!("burst start_bit={} len_bits={} pattern={:#x}", start, blen, pat));
  m.edits = vec![(first, b[first..=last].to_vec())];
  m
}
pub fn sector(orig: &[u8], rng: &mut Rng) -> Mutation {
  let ssz = *rng.pick(&[64usize, 128, 512]);
  let nsec = (orig.len() + ssz - 1) / ssz;
  let s = rng.usize(nsec.max(1));
  let start = s * ssz; let end = ((s + 1) * ssz).min(orig.len());
  match rng.below(3) {
    0 => { let mut m = Mutation::new("z", format!("sector {}x{} zeroed", s, ssz)); m.edits = vec![(start, vec![0; end - start])]; m }
    1 => { let mut m = Mutation::new("z", format!("sector {}x{} filled with 0xFF", s, ssz)); m.edits = vec![(start, vec![0xFF; end - start])]; m }
    _ => {
      let src = rng.usize(nsec.max(1));
      let ss = src * ssz; let se = ((src + 1) * ssz).min(orig.len());
      let mut data = orig[ss..se].to_vec(); data.resize(end - start, 0);
      let mut m = Mutation::new("z", format!("sector {}x{} replaced by sector {}", s, ssz, src)); m.edits = vec![(start, data)]; m
    }
  }
}
pub fn append_dup(orig: &[u8], rng: &mut Rng) -> Mutation {
  if rng.chance(1, 2) {
    let n = 1 + rng.usize(64);
    let mut m = Mutation::new("a", format!("append {} bytes", n));
    m.append = (0..n).map(|_| rng.next() as u8).collect();
    m
  } else {
    let start = rng.usize(orig.len()); let len = 1 + rng.usize((orig.len() - start).min(256));
    let mut m = Mutation::new("a", format!("duplicate region {}+{} at end", start, len));
    m.append = orig[start..start + len].to_vec();
    m
  }
}
pub fn random_bytes(orig: &[u8], rng: &mut Rng) -> Mutation {
  let n = match rng.below(4) { 0 => rng.usize(8), 1 => rng.usize(HEADER_SIZE + 8), 2 => HEADER_SIZE + rng.usize(512), _ => rng.usize(4096) };
  let mut bytes: Vec<u8> = (0..n).map(|_| rng.next() as u8).collect();
  let mut label = format!("{} random bytes", n);
  if rng.chance(1, 2) && n >= 16 {
    // keep a valid header prefix so that the loader gets past the magic check
    let k = (4 + rng.usize(HEADER_SIZE)).min(n).min(orig.len());
    bytes[..k].copy_from_slice(&orig[..k]);
    label = format!("{} random bytes with {}-byte prefix of a real file", n, k);
  }
  let mut m = Mutation::new("r", label);
  m.replace_all = Some(bytes);
  if rng.chance(1, 3) { m.fix_crc = true; m.label.push_str(", checksum recomputed"); }
  m
}

fn boundary(rng: &mut Rng, orig: u64, w: usize, file_len: usize) -> u64 {
  let fl = file_len as u64;
  let c: Vec<u64> = match w {
    8 => vec![0, 1, orig.wrapping_sub(1), orig.wrapping_add(1), orig.wrapping_add(8), fl.saturating_sub(4), fl, fl + 1, fl * 2, 0x7fff_ffff, 0xffff_ffff, 1 << 32, 1 << 40, 1 << 62, u64::MAX, u64::MAX - 7, orig ^ (1 << rng.usize(40))],
    4 => vec![0, 1, orig.wrapping_sub(1) & 0xffff_ffff, (orig + 1) & 0xffff_ffff, 0xffff, 0x00ff_ffff, 0x1000_0000, 0x7fff_ffff, 0xffff_ffff, (orig ^ (1 << rng.usize(32))) & 0xffff_ffff],
    2 => vec![0, 1, (orig + 1) & 0xffff, 0x00ff, 0x7fff, 0xffff, 58, 59, 60, 200],
    _ => vec![0, 1, 2, 3, 7, 8, 9, 16, 64, 127, 128, 255, (orig + 1) & 0xff],
  };
  *rng.pick(&c)
}

/// Structure-aware mutation: set one field of the emitted file to a boundary value and recompute
/// the checksum, so the loader's own checks (not the CRC) have to catch it.
pub fn structural(orig: &[u8], rng: &mut Rng) -> Mutation {
  let fl = orig.len();
  let mut m = Mutation::new("s", String::new());
  m.fix_crc = true;
  let choice = rng.below(11);
  match choice {
    10 => {
      // the two leading words of a constant together (matrix rows x columns, table rows x columns):
      // one of them zero and the other huge passes a product test and still drives a loop
      let tbl = header_field(orig, "const_tbl_off") as usize;
      let cnt = header_field(orig, "const_count") as usize;
      let blob = header_field(orig, "const_blob_off") as usize;
      if cnt == 0 || tbl + 24 * cnt > fl { return structural_fallback(orig, rng); }
      let i = rng.usize(cnt);
      let coff = rd(orig, tbl + 24 * i + 8, 8) as usize;
      let clen = rd(orig, tbl + 24 * i + 16, 8) as usize;
      if clen < 8 || blob + coff + clen > fl { return structural_fallback(orig, rng); }
      let (a, b) = *rng.pick(&[(0u64, 0xffff_ffffu64), (0xffff_ffff, 0), (0, 0x7fff_ffff), (0, 0), (1, 0xffff_ffff), (0xffff_ffff, 1), (0x1_0000, 0x1_0000)]);
      m.label = format!("blob const[{}] leading words=({:#x},{:#x})", i, a, b);
      m.edits = vec![(blob + coff, le(a, 4)), (blob + coff + 4, le(b, 4))];
    }
    0..=3 => {
      let (name, off, w) = *rng.pick(&HEADER_FIELDS[1..]);
      let old = rd(orig, off, w);
      let nv = boundary(rng, old, w, fl);
      m.label = format!("header.{}={:#x} (was {:#x})", name, nv, old);
      m.edits = vec![(off, le(nv, w))];
    }
    4 | 5 => {
      // a constant table entry
      let tbl = header_field(orig, "const_tbl_off") as usize;
      let cnt = header_field(orig, "const_count") as usize;
      if cnt == 0 || tbl + 24 * cnt > fl { return structural_fallback(orig, rng); }
      let i = rng.usize(cnt);
      let (fname, fo, w) = *rng.pick(&[("type_id", 0usize, 4usize), ("enc", 4, 1), ("align", 5, 1), ("flags", 6, 1), ("offset", 8, 8), ("length", 16, 8)]);
      let off = tbl + 24 * i + fo;
      let old = rd(orig, off, w);
      let nv = if fname == "type_id" { *rng.pick(&[header_field(orig, "types_count"), header_field(orig, "types_count") + 1, 0xffff_ffff, 0x7fff_ffff, old + 1, 0]) } else { boundary(rng, old, w, header_field(orig, "const_blob_len") as usize) };
      m.label = format!("const[{}].{}={:#x} (was {:#x})", i, fname, nv, old);
      m.edits = vec![(off, le(nv, w))];
    }
    6 => {
      // types section: count, or a tag / bytes_len of an entry
      let toff = header_field(orig, "types_off") as usize;
      if toff + 4 > fl { return structural_fallback(orig, rng); }
      let cnt = rd(orig, toff, 4) as usize;
      if cnt == 0 || rng.chance(1, 4) {
        let nv = boundary(rng, cnt as u64, 4, fl);
        m.label = format!("types.count={:#x} (was {})", nv, cnt);
        m.edits = vec![(toff, le(nv, 4))];
      } else {
        // walk to a random entry
        let target = rng.usize(cnt);
        let mut p = toff + 4;
        for _ in 0..target { if p + 12 > fl { break; } let bl = rd(orig, p + 8, 4) as usize; p += 12 + bl; }
        if p + 12 > fl { return structural_fallback(orig, rng); }
        if rng.chance(1, 2) {
          let old = rd(orig, p, 2); let nv = boundary(rng, old, 2, fl);
          m.label = format!("types[{}].tag={} (was {})", target, nv, old);
          m.edits = vec![(p, le(nv, 2))];
        } else {
          let old = rd(orig, p + 8, 4); let nv = boundary(rng, old, 4, fl);
          m.label = format!("types[{}].bytes_len={:#x} (was {})", target, nv, old);
          m.edits = vec![(p + 8, le(nv, 4))];
        }
      }
    }
    7 => {
      // inside the constant blob: the first words of a constant (matrix dimensions, string length, rational parts)
      let tbl = header_field(orig, "const_tbl_off") as usize;
      let cnt = header_field(orig, "const_count") as usize;
      let blob = header_field(orig, "const_blob_off") as usize;
      if cnt == 0 || tbl + 24 * cnt > fl { return structural_fallback(orig, rng); }
      let i = rng.usize(cnt);
      let coff = rd(orig, tbl + 24 * i + 8, 8) as usize;
      let clen = rd(orig, tbl + 24 * i + 16, 8) as usize;
      if clen == 0 || blob + coff + clen > fl { return structural_fallback(orig, rng); }
      let w = *rng.pick(&[1usize, 2, 4, 4, 8]);
      let inner = if rng.chance(2, 3) { *rng.pick(&[0usize, 4, 8]) } else { rng.usize(clen) };
      let inner = inner.min(clen.saturating_sub(1));
      let w = w.min(clen - inner);
      let off = blob + coff + inner;
      let old = rd(orig, off, w);
      let nv = boundary(rng, old, if w == 3 { 2 } else { w }, clen);
      m.label = format!("blob const[{}]+{} ({} bytes)={:#x} (was {:#x})", i, inner, w, nv, old);
      m.edits = vec![(off, le(nv, w.max(1)).into_iter().take(w).collect())];
    }
    8 => {
      // instruction stream: opcode or an operand word
      let ioff = header_field(orig, "instr_off") as usize;
      let ilen = header_field(orig, "instr_len") as usize;
      if ilen == 0 || ioff + ilen > fl { return structural_fallback(orig, rng); }
      let p = ioff + rng.usize(ilen);
      let w = (*rng.pick(&[1usize, 4, 8])).min(ioff + ilen - p);
      let old = rd(orig, p, w);
      let nv = boundary(rng, old, if w > 4 { 8 } else if w > 2 { 4 } else { 1 }, fl);
      m.label = format!("instr_bytes+{} ({} bytes)={:#x} (was {:#x})", p - ioff, w, nv, old);
      m.edits = vec![(p, le(nv, 8).into_iter().take(w).collect())];
    }
    _ => {
      // feature section count
      let foff = header_field(orig, "feature_off") as usize;
      if foff + 4 > fl { return structural_fallback(orig, rng); }
      let old = rd(orig, foff, 4); let nv = boundary(rng, old, 4, fl);
      m.label = format!("features.count={:#x} (was {})", nv, old);
      m.edits = vec![(foff, le(nv, 4))];
    }
  }
  m
}
/// Fault kind n — nesting bomb (checksum valid): one constant is re-typed as a set (or table) and
/// pointed at a run of N "matrix of" / "set of" kind tags appended to the constant blob, so that the
/// kind decoder nests once per byte. The loader and the decoder must answer (an error is fine) on
/// the stack a real caller has; the trial therefore runs on a thread with a 2 MiB stack (std's default for spawned threads).
pub fn nesting_bomb(orig: &[u8], rng: &mut Rng) -> Mutation {
  let fl = orig.len();
  let tbl = header_field(orig, "const_tbl_off") as usize;
  let cnt = header_field(orig, "const_count") as usize;
  let blob = header_field(orig, "const_blob_off") as usize;
  let blen = header_field(orig, "const_blob_len") as usize;
  let toff = header_field(orig, "types_off") as usize;
  if cnt == 0 || tbl + 24 * cnt > fl || blob + blen + 4 > fl || toff + 4 > fl { return structural_fallback(orig, rng); }
  let i = rng.usize(cnt);
  let type_id = rd(orig, tbl + 24 * i, 4) as usize;
  let tcnt = rd(orig, toff, 4) as usize;
  if type_id >= tcnt { return structural_fallback(orig, rng); }
  let mut p = toff + 4;
  for _ in 0..type_id { if p + 12 > fl { break; } let bl = rd(orig, p + 8, 4) as usize; p += 12 + bl; }
  if p + 12 > fl { return structural_fallback(orig, rng); }
  let n0 = *rng.pick(&[2_000usize, 20_000, 120_000]);
  // one level per byte (matrix of / set of), or nine bytes per level (table with one column named "" of kind ...)
  let unit: Vec<u8> = match rng.below(4) { 0 | 1 => vec![21u8], 2 => vec![29u8], _ => vec![26u8, 1, 0, 0, 0, 0, 0, 0, 0] };
  let tag_byte = unit[0];
  // the same number of LEVELS whatever a level costs in bytes (a table level is nine bytes)
  let n = n0 * unit.len();
  let container = *rng.pick(&[45u64, 45, 42]); // TypeTag::Set, TypeTag::Table
  let ins = blob + blen;
  let pad = (8 - blen % 8) % 8;
  let delta = pad + n;
  let mut out = Vec::with_capacity(fl + delta);
  out.extend_from_slice(&orig[..ins]);
  out.extend(std::iter::repeat(0u8).take(pad));
  out.extend(unit.iter().cycle().take(n));
  out.extend_from_slice(&orig[ins..]);
  let put = |out: &mut Vec<u8>, off: usize, v: u64, w: usize| { for (k, b) in le(v, w).into_iter().enumerate() { out[off + k] = b; } };
  let hoff = |name: &str| HEADER_FIELDS.iter().find(|(f, _, _)| *f == name).map(|(_, o, _)| *o).unwrap();
  put(&mut out, hoff("const_blob_len"), (blen + delta) as u64, 8);
  for f in ["symbols_off", "instr_off", "dict_off"] { let old = header_field(orig, f) as usize; if old >= ins { put(&mut out, hoff(f), (old + delta) as u64, 8); } }
  put(&mut out, p, container, 2);
  put(&mut out, tbl + 24 * i + 5, 1, 1);                      // align 1
  put(&mut out, tbl + 24 * i + 8, (blen + pad) as u64, 8);    // offset
  put(&mut out, tbl + 24 * i + 16, n as u64, 8);              // length
  let mut m = Mutation::new("n", format!("const[{}] re-typed as {} and pointed at {} bytes of nested kind tags {:#04x} ({} per level) appended to the constant blob", i, if container == 45 { "set" } else { "table" }, n, tag_byte, unit.len()));
  m.replace_all = Some(out);
  m.fix_crc = true;
  m
}

/// `feed` on a thread with the stack a real caller has (2 MiB: what `std::thread::spawn` gives, e.g. the file watcher's reload thread), for the fault
/// kinds whose point is recursion depth. A stack overflow kills the worker; the supervisor
/// attributes the death to the run and confirms it from the black box.
pub fn feed_on_small_stack(bytes: Vec<u8>, hash_seed: u64) -> FeedResult {
  let h = std::thread::Builder::new().stack_size(2 << 20).spawn(move || { crate::hashseed::set_thread_hash_seed(hash_seed); feed(&bytes, None) }).expect("spawn small-stack consumer");
  match h.join() { Ok(r) => r, Err(p) => FeedResult { fed: Fed::LoaderPanicked(crate::hashseed::panic_message(&p), String::new()), largest_alloc: 0, cpu_ms: 0 } }
}
fn structural_fallback(orig: &[u8], rng: &mut Rng) -> Mutation {
  let (name, off, w) = *rng.pick(&HEADER_FIELDS[1..]);
  let old = rd(orig, off, w);
  let nv = boundary(rng, old, w, orig.len());
  let mut m = Mutation::new("s", format!("header.{}={:#x} (was {:#x})", name, nv, old));
  m.fix_crc = true;
  m.edits = vec![(off, le(nv, w))];
  m
}
/// 1-4 random payload bytes set to random or boundary values, checksum recomputed.
pub fn crc_fixed_patch(orig: &[u8], rng: &mut Rng) -> Mutation {
  let n = 1 + rng.usize(4);
  let mut m = Mutation::new("c", String::new());
  m.fix_crc = true;
  let mut parts = vec![];
  for _ in 0..n {
    let p = rng.usize(orig.len().saturating_sub(4).max(1));
    let v = match rng.below(4) { 0 => 0u8, 1 => 0xff, 2 => orig[p].wrapping_add(1), _ => rng.next() as u8 };
    m.edits.push((p, vec![v]));
    parts.push(format!("[{}]={:#04x}", p, v));
  }
  m.label = format!("patch {} (checksum recomputed)", parts.join(" "));
  m
}

// -------------------------------------------------------------------------------------------------
// configuration 0/1: the fault-free baseline and the exact round trip

pub fn check_roundtrip(bytes: &[u8], ctx: &CtxSummary) -> Vec<Violation> {
  let mut out = vec![];
  let v = |class: &str, detail: String, summary: String| Violation { class: class.to_string(), signature: format!("{}|-|{}", class, detail), summary, mutation: None };
  take_last_panic();
  let prog = match catch_unwind(AssertUnwindSafe(|| ParsedProgram::from_bytes(bytes))) {
    Err(p) => { let (m, l) = take_last_panic().unwrap_or((crate::hashseed::panic_message(&p), String::new())); out.push(v("loader-panicked-on-emitted-file", format!("{}|{}", l, msg_class(&m)), format!("loader panicked on an emitted file: {} @{}", m, l))); return out; }
    Ok(Err(e)) => { out.push(v("emitted-file-rejected", e.kind_name(), format!("the loader rejects a file the compiler emitted: {}", e.kind_name()))); return out; }
    Ok(Ok(p)) => p,
  };
  // re-encode
  match catch_unwind(AssertUnwindSafe(|| prog.to_bytes())) {
    Ok(Ok(b2)) => {
      if b2 != bytes {
        let first = b2.iter().zip(bytes.iter()).position(|(a, b)| a != b).unwrap_or(b2.len().min(bytes.len()));
        out.push(v("roundtrip-bytes-differ", section_of(bytes, first), format!("to_bytes(from_bytes(b)) != b: lengths {} vs {}, first difference at byte {} ({})", b2.len(), bytes.len(), first, section_of(bytes, first))));
      }
    }
    Ok(Err(e)) => out.push(v("reencode-failed", e.kind_name(), format!("to_bytes failed on a decoded emitted program: {}", e.kind_name()))),
    Err(_) => { take_last_panic(); out.push(v("reencode-panicked", String::new(), "to_bytes panicked on a decoded emitted program".into())); }
  }
  // decoded fields vs what the compiler wrote
  let h = &prog.header;
  let mut field = |name: &str, ok: bool, detail: String| { if !ok { out.push(v("decoded-field-differs", name.to_string(), format!("decoded {} differs from what the compiler wrote: {}", name, detail))); } };
  field("header.reg_count", h.reg_count == ctx.next_reg, format!("{} vs {}", h.reg_count, ctx.next_reg));
  field("header.instr_count", h.instr_count as usize == ctx.instr_count, format!("{} vs {}", h.instr_count, ctx.instr_count));
  field("instrs.len", prog.instrs.len() == ctx.instr_count, format!("{} vs {}", prog.instrs.len(), ctx.instr_count));
  field("instr_bytes", prog.instr_bytes == ctx.instr_bytes, format!("{} vs {} bytes", prog.instr_bytes.len(), ctx.instr_bytes.len()));
  let mut re = vec![];
  for i in &prog.instrs { let _ = i.write_to(&mut re); }
  field("instrs.reencoded", re == ctx.instr_bytes, format!("{} vs {} bytes", re.len(), ctx.instr_bytes.len()));
  field("header.const_count", h.const_count as usize == ctx.const_entries.len(), format!("{} vs {}", h.const_count, ctx.const_entries.len()));
  let dec_entries: Vec<(u32, u8, u8, u64, u64)> = prog.const_entries.iter().map(|e| (e.type_id, e.enc, e.align, e.offset, e.length)).collect();
  field("const_entries", dec_entries == ctx.const_entries, format!("{} vs {} entries", dec_entries.len(), ctx.const_entries.len()));
  field("const_blob", prog.const_blob == ctx.const_blob, format!("{} vs {} bytes", prog.const_blob.len(), ctx.const_blob.len()));
  let mut feats = prog.features.clone(); feats.sort();
  field("features", feats == ctx.features, format!("{:?} vs {:?}", feats.len(), ctx.features.len()));
  field("header.feature_count", h.feature_count as usize == ctx.features.len(), format!("{} vs {}", h.feature_count, ctx.features.len()));
  let dec_types: Vec<(u16, Vec<u8>)> = prog.types.entries.iter().map(|t| (t.tag.clone() as u16, t.bytes.clone())).collect();
  field("types", dec_types == ctx.types, format!("{} vs {} entries", dec_types.len(), ctx.types.len()));
  // the constants of an emitted file decode (no panic, no error), and every decoded constant,
  // encoded again by the compiler's own constant encoder, gives the bytes the compiler wrote
  match catch_unwind(AssertUnwindSafe(|| prog.decode_const_entries())) {
    Err(p) => { let (m, l) = take_last_panic().unwrap_or((crate::hashseed::panic_message(&p), String::new())); out.push(v("const-decoder-panicked-on-emitted-file", format!("{}|{}", l, msg_class(&m)), format!("decode_const_entries panicked on an emitted file: {} @{}", m, l))); }
    Ok(Err(e)) => {
      take_last_panic();
      // which constant? decode them one at a time (same blob, one entry)
      let mut culprit = String::from("?");
      for (i, ce) in prog.const_entries.iter().enumerate() {
        let mut one = prog.clone();
        one.const_entries = vec![ce.clone()];
        take_last_panic();
        let r = catch_unwind(AssertUnwindSafe(|| one.decode_const_entries()));
        // a panic inside the decoder is turned into MalformedConstant by the decoder itself; the
        // hook still saw where it happened, which tells one cause from another
        let inner = take_last_panic();
        if !matches!(r, Ok(Ok(_))) {
          let tag = prog.types.entries.get(ce.type_id as usize).map(|t| format!("{:?}", t.tag)).unwrap_or("no-such-type".into());
          culprit = format!("{} (constant {} of {})", tag, i, prog.const_entries.len());
          // file without the line number: a recorded finding must survive unrelated edits above it
          let (site, why) = match &inner { Some((m, l)) => (l.rsplit_once(':').map(|(f, _)| f.to_string()).unwrap_or(l.clone()), msg_class(m)), None => (String::new(), String::new()) };
          // one report per distinct cause in this file (a recorded finding must not hide another)
          let ename = match &r { Ok(Err(e1)) => e1.kind_name(), _ => e.kind_name() };
          let detail = format!("{}|{}|{}|{}", ename, tag, site, why);
          if !out.iter().any(|x| x.signature.ends_with(&detail)) {
            out.push(v("emitted-constants-rejected", detail, format!("decode_const_entries rejects the constants of a file the compiler emitted: {} at a constant of type {}{}", ename, culprit, inner.as_ref().map(|(m, l)| format!(" (inside the decoder: {} @{})", crate::node::trunc(m, 160), l)).unwrap_or_default())));
          }
        }
      }
      if culprit == "?" { out.push(v("emitted-constants-rejected", e.kind_name(), format!("decode_const_entries rejects the constants of a file the compiler emitted: {}", e.kind_name()))); }
    }
    Ok(Ok(values)) => {
      if values.len() != ctx.const_entries.len() {
        out.push(v("decoded-field-differs", "constants.len".into(), format!("{} constants decoded, {} written", values.len(), ctx.const_entries.len())));
      } else {
        for (i, val) in values.iter().enumerate() {
          let (_, _, _, off, len) = ctx.const_entries[i];
          let (off, len) = (off as usize, len as usize);
          if off + len > ctx.const_blob.len() { continue; }
          let written = &ctx.const_blob[off..off + len];
          let mut c2 = CompileCtx::new();
          match catch_unwind(AssertUnwindSafe(|| val.compile_const(&mut c2))) {
            Ok(Ok(_)) => {
              CONSTS_COMPARED.with(|c| c.set(c.get() + 1));
              let again: Vec<u8> = match c2.const_entries.last() { Some(e) => { let (o, l) = (e.offset as usize, e.length as usize); if o + l <= c2.const_blob.len() { c2.const_blob[o..o + l].to_vec() } else { vec![] } } None => vec![] };
              if again != written {
                let first = again.iter().zip(written.iter()).position(|(a, b)| a != b).unwrap_or(again.len().min(written.len()));
                let tag = format!("{:?}", val.kind()).split(|ch: char| !ch.is_alphanumeric()).next().unwrap_or("").to_string();
                out.push(v("decoded-constant-differs", tag, format!("constant {} decodes to a value whose encoding differs from the bytes the compiler wrote ({} vs {} bytes, first difference at {})", i, again.len(), written.len(), first)));
                break;
              }
            }
            _ => { take_last_panic(); CONSTS_NOT_REENCODABLE.with(|c| c.set(c.get() + 1)); }
          }
        }
      }
    }
  }
  out
}

thread_local! {
  /// per-thread tallies of the constant comparison above (read and reset by `take_const_tallies`)
  static CONSTS_COMPARED: std::cell::Cell<u64> = const { std::cell::Cell::new(0) };
  static CONSTS_NOT_REENCODABLE: std::cell::Cell<u64> = const { std::cell::Cell::new(0) };
}
pub fn take_const_tallies() -> (u64, u64) { (CONSTS_COMPARED.with(|c| c.replace(0)), CONSTS_NOT_REENCODABLE.with(|c| c.replace(0))) }

fn section_of(b: &[u8], pos: usize) -> String {
  if pos < HEADER_SIZE { return "header".into(); }
  let secs = [("features", "feature_off"), ("types", "types_off"), ("const_table", "const_tbl_off"), ("const_blob", "const_blob_off"), ("symbols", "symbols_off"), ("instructions", "instr_off"), ("dictionary", "dict_off")];
  let mut name = "header";
  for (n, f) in secs { if header_field(b, f) as usize <= pos && header_field(b, f) != 0 { name = n; } }
  if pos + 4 >= b.len() { name = "crc-trailer"; }
  name.to_string()
}

// -------------------------------------------------------------------------------------------------
// a run

pub struct RunOut {
  pub digest: u64,
  pub nontrivial: bool,
  pub counters: BTreeMap<String, u64>,
  pub sets: BTreeMap<String, Vec<String>>,
  pub violations: Vec<(Violation, J)>,
  pub sample: J,
}

fn bump(m: &mut BTreeMap<String, u64>, k: &str, n: u64) { *m.entry(k.to_string()).or_insert(0) += n; }

pub struct Plan { pub program: usize, pub hs_producer: u64, pub hs_consumer: u64, pub enumerate: bool, pub trials: usize, pub io_trials: usize, pub via_file: bool }

/// A program made of literal definitions only: every constant class the compiler can put into the
/// constant table, with variable-width elements (strings of differing byte lengths, multi-byte
/// characters) inside every container, so that decoders that walk a blob element by element are
/// exercised on more than the suite's equal-length examples.
pub fn constants_program(rng: &mut Rng) -> (String, String) {
  fn rand_string(rng: &mut Rng) -> String {
    let pool = ['a', 'b', 'z', 'A', 'Q', '0', '7', ' ', '-', '.', 'é', 'ü', 'λ', '✓', '中'];
    let len = *rng.pick(&[0usize, 1, 1, 2, 3, 3, 5, 8, 13]);
    (0..len).map(|_| *rng.pick(&pool)).collect()
  }
  fn num(rng: &mut Rng, kind: &str) -> String {
    let v = *rng.pick(&[0u64, 1, 2, 3, 7, 42, 100, 127]);
    match kind {
      "f64" => if rng.chance(1, 2) { format!("{}", v) } else { format!("{}.{}", v, *rng.pick(&[5u64, 25, 125])) },
      k => format!("{}<{}>", v, k),
    }
  }
  fn scalar(rng: &mut Rng) -> String {
    match rng.below(8) {
      0 => format!("\"{}\"", rand_string(rng)),
      1 => if rng.chance(1, 2) { "true".into() } else { "false".into() },
      2 => format!("{}/{}", 1 + rng.below(9), 1 + rng.below(9)),
      3 => format!("{}+{}i", rng.below(9), 1 + rng.below(9)),
      4 => format!(":{}", *rng.pick(&["ok", "red", "north", "a", "a-rather-long-atom-name-that-goes-on-and-on-for-more-than-sixty-four-bytes-in-all"])),
      _ => { let k = *rng.pick(&["f64", "f64", "u8", "u16", "u32", "u64", "u128", "i8", "i16", "i32", "i64", "i128", "f32"]); num(rng, k) }
    }
  }
  fn matrix(rng: &mut Rng) -> String {
    let (r, c) = (1 + rng.usize(4), 1 + rng.usize(4));
    let kind = *rng.pick(&["f64", "f64", "string", "string", "bool", "u8", "u64", "u16"]);
    let mut rows = vec![];
    for _ in 0..r {
      let row: Vec<String> = (0..c).map(|_| match kind { "string" => format!("\"{}\"", rand_string(rng)), "bool" => if rng.chance(1, 2) { "true".into() } else { "false".into() }, k => num(rng, k) }).collect();
      rows.push(row.join(" "));
    }
    format!("[{}]", rows.join("; "))
  }
  let mut lines = vec![];
  let n = 1 + rng.usize(5);
  for i in 0..n {
    let lit = match rng.below(12) {
      0 | 1 => scalar(rng),
      2 | 3 | 4 | 5 => matrix(rng),
      6 => { let m = 2 + rng.usize(4); let strs = rng.chance(1, 2); format!("{{{}}}", (0..m).map(|j| if strs { format!("\"{}{}\"", rand_string(rng), j) } else { format!("{}", j * 3 + rng.usize(3)) }).collect::<Vec<_>>().join(", ")) }
      7 => if rng.chance(1, 2) { format!("{{a: {}, b: {}, c: {}}}", scalar(rng), scalar(rng), matrix(rng)) } else {
        // records of every width (the type entry of a record holds its field names)
        let nf = 1 + rng.usize(10);
        let long = rng.chance(1, 3);
        format!("{{{}}}", (0..nf).map(|j| format!("{}{}: {}", if long { "a-long-field-name-" } else { "f" }, j, scalar(rng))).collect::<Vec<_>>().join(", "))
      },
      8 | 9 => {
        let rows = 1 + rng.usize(4);
        let body: Vec<String> = (0..rows).map(|_| format!("\"{}\" {} {}", rand_string(rng), num(rng, "f64"), if rng.chance(1, 2) { "true" } else { "false" })).collect();
        if rng.chance(1, 2) { format!("|n<string> v<f64> b<bool>| {} |", body.join(" | ")) } else {
          // tables of every width (the type entry of a table holds its column names and kinds)
          let nc = 1 + rng.usize(10);
          let long = rng.chance(1, 3);
          let kinds: Vec<&str> = (0..nc).map(|_| *rng.pick(&["f64", "f64", "u8", "u64", "bool", "string", "i32"])).collect();
          let head: Vec<String> = kinds.iter().enumerate().map(|(j, k)| format!("{}{}<{}>", if long { "a-long-column-name-" } else { "c" }, j, k)).collect();
          let body: Vec<String> = (0..rows).map(|_| kinds.iter().map(|k| match *k { "string" => format!("\"{}\"", rand_string(rng)), "bool" => if rng.chance(1, 2) { "true".to_string() } else { "false".to_string() }, "f64" => num(rng, "f64"), k => num(rng, k) }).collect::<Vec<_>>().join(" ")).collect();
          format!("|{}| {} |", head.join(" "), body.join(" | "))
        }
      }
      10 if rng.chance(1, 4) => { let m = 1 + rng.usize(3); format!("{{{}}}", (0..m).map(|j| format!("{{{}, {}}}", j * 2 + 1, j * 2 + 2)).collect::<Vec<_>>().join(", ")) } // a set of sets
      10 if rng.chance(1, 4) => { lines.push(format!("e{} := [1 2 3]", i)); format!("e{}[e{} > {}]", i, i, *rng.pick(&[0u64, 2, 5])) } // a selection that may be empty
      10 => { let m = 1 + rng.usize(3); format!("{{{}}}", (0..m).map(|j| format!("\"k{}{}\": {}", j, rand_string(rng), if rng.chance(1, 2) { format!("\"{}\"", rand_string(rng)) } else { num(rng, "f64") })).collect::<Vec<_>>().join(", ")) }
      _ => matrix(rng), // no tuple literals: `compile()` does not terminate on tuple constants (pinned tree)
    };
    lines.push(format!("c{} := {}", i, lit));
  }
  ("generated-constants".to_string(), lines.join("\n"))
}

pub fn plan(seed: u64, k: u64, corpus_len: usize, thorough: bool) -> (Plan, Rng) {
  let mut rng = Rng::for_run(seed, WORLD_ID * 16, k);
  // the first corpus_len runs walk the corpus in order (every emitted file gets its baseline and
  // round trip; in the thorough tier also the complete truncation / bit-flip enumeration)
  // Interleaved walk: runs 0..24 are corpus[0..24]; after that every fourth run is a generated
  // program and the other three continue the walk, until the corpus is exhausted; then seeded picks.
  const GENERATED: usize = usize::MAX;
  let (program, in_walk) = if (k as usize) < 24.min(corpus_len) { (k as usize, true) } else {
    let k2 = k as usize - 24.min(corpus_len);
    if k2 % 4 == 3 { (GENERATED, false) } else {
      let idx = 24.min(corpus_len) + (k2 - k2 / 4);
      if idx < corpus_len { (idx, true) } else if rng.chance(1, 2) { (GENERATED, false) } else { (rng.usize(corpus_len), false) }
    }
  };
  let enumerate = in_walk && (thorough || k < 24);
  let hs_producer = rng.next();
  let hs_consumer = rng.next();
  let trials = 150 + rng.usize(250);
  let via_file = rng.chance(1, 8);
  let io_trials = 24 + rng.usize(40);
  (Plan { program, hs_producer, hs_consumer, enumerate, trials, io_trials, via_file }, rng)
}

pub fn run(seed: u64, k: u64, corpus: &std::sync::Arc<Vec<(String, String)>>, thorough: bool, blackbox: Option<&str>) -> RunOut {
  let (pl, mut rng) = plan(seed, k, corpus.len(), thorough);
  // beyond the corpus walk, one run in three compiles a generated program (W1's valid statements
  // batched into one text, assignment templates, relational programs) instead of a harvested one
  let generated = pl.program == usize::MAX;
  let (name, text) = if generated {
    match rng.below(6) {
      0 => ("generated-session".to_string(), crate::w2::generated_program_without(&mut rng, true, &["tuple"])),
      1 => crate::w2::template_program(&mut rng),
      2 => crate::w2::relational_program(&mut rng),
      _ => constants_program(&mut rng),
    }
  } else { corpus[pl.program].clone() };
  let mut counters = BTreeMap::new();
  let mut sets: BTreeMap<String, Vec<String>> = BTreeMap::new();
  let mut dig = Digest::new();
  dig.str(&text);
  // producer node. The compiler is not C07's subject, but it must not take the simulator down:
  // some suite snippets (tuple constants) send `compile()` into an endless loop. The producer gets a
  // deadline; a program that misses it is recorded (shared between workers) and contributes no file.
  let hung_list = format!("/dev/shm/mechsim-w3-hung-{}.txt", parent_pid());
  let hung_key = { let mut d = Digest::new(); d.str(&text); format!("{}#{:016x}", name, d.finish()) };
  if std::fs::read_to_string(&hung_list).map(|t| t.lines().any(|l| l == hung_key)).unwrap_or(false) {
    bump(&mut counters, "reach:no-file:compile-hung", 1);
    dig.str("compile-hung");
    return RunOut { digest: dig.finish(), nontrivial: false, counters, sets, violations: vec![], sample: J::Null };
  }
  let t2 = text.clone();
  let (tx, rx) = std::sync::mpsc::channel();
  let hsp = pl.hs_producer;
  std::thread::Builder::new().stack_size(crate::hashseed::NODE_STACK).spawn(move || {
    crate::hashseed::set_thread_hash_seed(hsp);
    let r = catch_unwind(AssertUnwindSafe(|| produce(&t2)));
    tx.send(r.map_err(|e| crate::hashseed::panic_message(&e))).ok();
  }).expect("spawn producer");
  let produced = match rx.recv_timeout(std::time::Duration::from_secs(6)) {
    Ok(r) => r,
    Err(_) => {
      use std::io::Write;
      if let Ok(mut f) = std::fs::OpenOptions::new().create(true).append(true).open(&hung_list) { writeln!(f, "{}", hung_key).ok(); }
      if let Ok(dbg) = std::env::var("MECHSIM_HUNG_LOG") { if let Ok(mut f) = std::fs::OpenOptions::new().create(true).append(true).open(&dbg) { writeln!(f, "{}\t{}", hung_key, text.replace('\n', " ⏎ ")).ok(); } }
      crate::supervisor::EXIT_AFTER_RUN.store(true, std::sync::atomic::Ordering::SeqCst);
      bump(&mut counters, "reach:no-file:compile-hung", 1);
      dig.str("compile-hung");
      return RunOut { digest: dig.finish(), nontrivial: false, counters, sets, violations: vec![], sample: J::Null };
    }
  };
  let (bytes, ctx) = match produced {
    Ok(Produced::File(b, c)) => (b, c),
    Ok(other) => {
      let why = match other { Produced::NoParse => "no-parse", Produced::InterpretFailed(_) => "interpret-failed", Produced::CompileFailed(_) => "compile-failed", Produced::CompilePanicked(_) => "compile-panicked", _ => "?" };
      bump(&mut counters, &format!("reach:no-file:{}", why), 1);
      dig.str(why);
      return RunOut { digest: dig.finish(), nontrivial: false, counters, sets, violations: vec![], sample: J::Null };
    }
    Err(msg) => {
      bump(&mut counters, "reach:no-file:producer-thread-died", 1);
      dig.str(&msg);
      return RunOut { digest: dig.finish(), nontrivial: false, counters, sets, violations: vec![], sample: J::Null };
    }
  };
  bump(&mut counters, "reach:files-emitted", 1);
  bump(&mut counters, "file-bytes", bytes.len() as u64);
  let file_len = bytes.len();
  // storage medium: a byte vector the simulator owns; sometimes a real file read back
  let stored: Vec<u8> = if pl.via_file {
    let dir = format!("/dev/shm/mechsim-{}", std::process::id());
    std::fs::create_dir_all(&dir).ok();
    let p = format!("{}/w3-{}.mecb", dir, k);
    std::fs::write(&p, &bytes).ok();
    let back = std::fs::read(&p).unwrap_or_default();
    // also through the file-based entry point
    let lp = catch_unwind(AssertUnwindSafe(|| load_program_from_file(&p)));
    std::fs::remove_file(&p).ok();
    match lp { Ok(Ok(_)) => bump(&mut counters, "reach:loaded-through-real-file", 1), _ => bump(&mut counters, "reach:real-file-load-failed", 1) }
    back
  } else { bytes.clone() };

  let bb = blackbox.map(|s| s.to_string());
  let prog_name = name.clone();
  let prog_text = text.clone();
  let enumerate = pl.enumerate;
  let trials = pl.trials;
  let io_trials = pl.io_trials;
  let via_file_dir: Option<String> = if pl.via_file { Some(format!("/dev/shm/mechsim-{}", std::process::id())) } else { None };
  let stored2 = stored.clone();
  let hs_consumer = pl.hs_consumer;
  let consumer = crate::hashseed::on_node_thread(pl.hs_consumer, move || {
    let bytes = stored2;
    let mut counters: BTreeMap<String, u64> = BTreeMap::new();
    let mut rejected_by: BTreeMap<String, u64> = BTreeMap::new();
    let mut violations: Vec<Violation> = vec![];
    let mut dig = Digest::new();
    // configuration 0 and 1
    violations.extend(check_roundtrip(&bytes, &ctx));
    let (cmp, unav) = take_const_tallies();
    bump(&mut counters, "constants-decoded-and-reencoded", cmp);
    bump(&mut counters, "constants-without-reencoder", unav);
    bump(&mut counters, "roundtrips", 1);
    let mut trial = |m: Mutation, counters: &mut BTreeMap<String, u64>, violations: &mut Vec<Violation>, dig: &mut Digest| {
      let damaged = m.apply(&bytes);
      if damaged == bytes && m.kind != "r" { bump(counters, "reach:mutation-was-identity", 1); return; }
      if let Some(p) = &bb {
        // black box for crash attribution: what is about to be fed
        let j = json!({"world": "W3", "program": prog_name, "program_text": prog_text, "mutation": m, "bytes_hex": hex(&damaged)});
        std::fs::write(p, j.to_string()).ok();
      }
      let fr = if m.kind == "n" { feed_on_small_stack(damaged.clone(), hs_consumer) } else { feed(&damaged, Some(&bytes)) };
      bump(counters, &format!("fault:{}", m.kind), 1);
      bump(counters, "steps", 1);
      match &fr.fed {
        Fed::Rejected(n) => { *rejected_by.entry(n.clone()).or_insert(0) += 1; dig.str(n); }
        Fed::Accepted { consts, .. } => { bump(counters, &format!("reach:accepted:{}", m.kind), 1); dig.str(&format!("accepted {:?}", consts.is_ok())); if let Err(e) = consts { bump(counters, &format!("reach:const-decoder-rejected:{}", e), 1); } }
        Fed::LoaderPanicked(..) => { bump(counters, "reach:loader-panicked", 1); dig.str("loader-panic"); }
        Fed::DecoderPanicked(..) => { bump(counters, "reach:decoder-panicked", 1); dig.str("decoder-panic"); }
      }
      if let Some(v) = judge(&m, &fr, bytes.len()) {
        if !violations.iter().any(|x| x.signature == v.signature) && violations.len() < 12 { violations.push(v); }
      }
    };
    if enumerate {
      for to in 0..bytes.len() { trial(gen_truncation(bytes.len(), to), &mut counters, &mut violations, &mut dig); }
      for bit in 0..bytes.len() * 8 { trial(bitflip(&bytes, bit), &mut counters, &mut violations, &mut dig); }
      bump(&mut counters, "files-enumerated-completely", 1);
    }
    for _ in 0..trials {
      let m = match rng.below(16) {
        0 => gen_truncation(bytes.len(), rng.usize(bytes.len())),
        1 => bitflip(&bytes, rng.usize(bytes.len() * 8)),
        2 | 3 => burst(&bytes, &mut rng),
        4 => sector(&bytes, &mut rng),
        5 => append_dup(&bytes, &mut rng),
        6 | 7 => random_bytes(&bytes, &mut rng),
        8..=12 => structural(&bytes, &mut rng),
        _ => crc_fixed_patch(&bytes, &mut rng),
      };
      trial(m, &mut counters, &mut violations, &mut dig);
    }
    // one nesting bomb per file (fault kind n)
    if trials > 0 { let m = nesting_bomb(&bytes, &mut rng); trial(m, &mut counters, &mut violations, &mut dig); }
    for (n, c) in rejected_by { bump(&mut counters, &format!("reach:rejected-by:{}", n), c); }
    // fault kind i: read-time faults between the medium and the real loader (hook H1)
    let mut io_violations: Vec<(Violation, crate::w3io::ReadFaults, Vec<u8>)> = vec![];
    {
      use crate::w3io::*;
      let reference0: Result<ParsedProgram, String> = match catch_unwind(AssertUnwindSafe(|| ParsedProgram::from_bytes(&bytes))) { Ok(Ok(p)) => Ok(p), Ok(Err(e)) => Err(e.kind_name()), Err(_) => Err("panicked".into()) };
      let clean = load_through(&bytes, bytes.len() as u64, &ReadFaults { label: "no read faults".into(), ..Default::default() });
      let (reads_hint, seeks_hint) = (clean.reads, clean.seeks);
      if let Some(v) = judge_io(&ReadFaults { label: "no read faults".into(), ..Default::default() }, &clean, &reference0, bytes.len()) { io_violations.push((v, ReadFaults::default(), bytes.clone())); }
      for _ in 0..io_trials {
        let f = draw(&mut rng, bytes.len(), reads_hint, seeks_hint, &bytes);
        // a third of the benign plans ride on a damaged file: the loader's answer must not depend on how the bytes arrive
        let (data, reference): (Vec<u8>, Result<ParsedProgram, String>) = if f.benign() && rng.chance(1, 3) {
          let m = match rng.below(4) { 0 => bitflip(&bytes, rng.usize(bytes.len() * 8)), 1 => crc_fixed_patch(&bytes, &mut rng), 2 => gen_truncation(bytes.len(), rng.usize(bytes.len())), _ => structural(&bytes, &mut rng) };
          let d = m.apply(&bytes);
          let r = match catch_unwind(AssertUnwindSafe(|| ParsedProgram::from_bytes(&d))) { Ok(Ok(p)) => Ok(p), Ok(Err(e)) => Err(e.kind_name()), Err(_) => { continue; } };
          bump(&mut counters, "reach:i:on-damaged-file", 1);
          (d, r)
        } else { (bytes.clone(), reference0.clone()) };
        if let Some(p) = &bb {
          let j = json!({"world": "W3", "program": prog_name, "program_text": prog_text, "read_faults": f, "bytes_hex": hex(&data)});
          std::fs::write(p, j.to_string()).ok();
        }
        let io = load_through(&data, data.len() as u64, &f);
        bump(&mut counters, "fault:i", 1);
        bump(&mut counters, "steps", 1);
        bump(&mut counters, &format!("reach:i:plan:{}", f.subkind()), 1);
        for (name, n) in &io.fired { if *n > 0 { bump(&mut counters, &format!("fault:i:{}", name), 1); } }
        match &io.loaded {
          Loaded::Ok(_) => { bump(&mut counters, "reach:i:loaded", 1); dig.str("i-ok"); }
          Loaded::Err(e) => { bump(&mut counters, &format!("reach:i:rejected-by:{}", e), 1); dig.str(e); }
          Loaded::Panicked(..) => { bump(&mut counters, "reach:loader-panicked", 1); dig.str("i-panic"); }
        }
        if let Some(v) = judge_io(&f, &io, &reference, data.len()) {
          if !io_violations.iter().any(|x| x.0.signature == v.signature) && io_violations.len() < 8 { io_violations.push((v, f, data)); }
        }
      }
    }
    // damaged files through the file-based entry point: it must answer like from_bytes
    if via_file_dir.is_some() {
      let dir = via_file_dir.clone().unwrap();
      for t in 0..24 {
        let m = match rng.below(5) { 0 => gen_truncation(bytes.len(), rng.usize(bytes.len())), 1 => bitflip(&bytes, rng.usize(bytes.len() * 8)), 2 => burst(&bytes, &mut rng), 3 => crc_fixed_patch(&bytes, &mut rng), _ => structural(&bytes, &mut rng) };
        let d = m.apply(&bytes);
        let p = format!("{}/w3-damaged-{}.mecb", dir, t);
        if std::fs::write(&p, &d).is_err() { continue; }
        if let Some(bbp) = &bb { let j = json!({"world": "W3", "program": prog_name, "program_text": prog_text, "mutation": m, "via_file": true, "bytes_hex": hex(&d)}); std::fs::write(bbp, j.to_string()).ok(); }
        take_last_panic();
        crate::alloc::reset_largest();
        let a = catch_unwind(AssertUnwindSafe(|| load_program_from_file(&p)));
        let la = crate::alloc::largest();
        std::fs::remove_file(&p).ok();
        let b = catch_unwind(AssertUnwindSafe(|| ParsedProgram::from_bytes(&d)));
        bump(&mut counters, "fault:f", 1);
        let mut mf = m.clone(); mf.kind = "f".into();
        let viol = match (&a, &b) {
          (Err(pn), _) => { let (msg, loc) = take_last_panic().unwrap_or((crate::hashseed::panic_message(pn), String::new())); Some(("loader-panicked", format!("{}|{}", loc, msg_class(&msg)), format!("{}: load_program_from_file panicked: {}", m.label, trunc(&msg, 120)))) }
          (Ok(Ok(x)), Ok(Ok(y))) if x == y => None,
          (Ok(Ok(_)), Ok(Ok(_))) => Some(("file-entry-disagrees-with-bytes-entry", "program".to_string(), format!("{}: load_program_from_file and from_bytes decoded different programs from the same bytes", m.label))),
          (Ok(Ok(_)), Ok(Err(e))) => Some(("file-entry-accepts-what-bytes-entry-rejects", String::new(), format!("{}: load_program_from_file accepted a file that from_bytes rejects with {}", m.label, e.kind_name()))),
          (Ok(Err(e)), Ok(Ok(_))) => Some(("file-entry-rejects-what-bytes-entry-accepts", e.kind_name(), format!("{}: load_program_from_file rejected ({}) a file that from_bytes accepts", m.label, e.kind_name()))),
          _ => None,
        };
        let viol = viol.or_else(|| if la > alloc_limit(d.len()) { Some(("unbounded-allocation", label_class(&m.label), format!("{}: largest single allocation {} bytes loading a {}-byte file through load_program_from_file", m.label, la, d.len()))) } else { None });
        if let Some((class, detail, summary)) = viol {
          let v = Violation { class: class.to_string(), signature: format!("{}|f|{}", class, detail), summary, mutation: Some(mf) };
          if !violations.iter().any(|x| x.signature == v.signature) && violations.len() < 12 { violations.push(v); }
        }
      }
    }
    (counters, violations, io_violations, dig.finish())
  });
  let (c2, viols, io_viols, d2) = match consumer {
    Ok(x) => x,
    Err(msg) => {
      let v = Violation { class: "host-aborted".into(), signature: format!("host-aborted|thread|{}", msg_class(&msg)), summary: format!("consumer thread died: {}", msg), mutation: None };
      (BTreeMap::new(), vec![v], vec![], 0)
    }
  };
  for (key, n) in c2 { bump(&mut counters, &key, n); }
  dig.u64(d2);
  sets.insert("programs-with-file".into(), vec![name.clone()]);
  let violations: Vec<(Violation, J)> = viols.into_iter().map(|v| {
    let damaged = v.mutation.as_ref().map(|m| m.apply(&stored));
    let replay = json!({
      "world": "W3", "seed": seed, "run": k, "program": name, "program_text": text,
      "hash_seed_producer": pl.hs_producer, "hash_seed_consumer": pl.hs_consumer,
      "emitted_len": file_len, "mutation": v.mutation, "bytes_hex": damaged.as_ref().map(|d| hex(d)).unwrap_or_else(|| hex(&stored)),
      "violation": {"class": v.class, "signature": v.signature, "summary": v.summary},
      "faults": v.mutation.as_ref().map(|m| vec![m.label.clone()]).unwrap_or_default(),
    });
    (v, replay)
  }).chain(io_viols.into_iter().map(|(v, f, data)| {
    let replay = json!({
      "world": "W3", "seed": seed, "run": k, "program": name, "program_text": text,
      "hash_seed_producer": pl.hs_producer, "hash_seed_consumer": pl.hs_consumer,
      "emitted_len": file_len, "read_faults": f, "bytes_hex": hex(&data),
      "violation": {"class": v.class, "signature": v.signature, "summary": v.summary},
      "faults": vec![f.label.clone()],
    });
    (v, replay)
  })).collect();
  let sample = if k % 211 == 1 { json!({"run": k, "program": name, "text": text, "emitted_bytes": file_len, "trials": pl.trials, "complete_t_b_enumeration": pl.enumerate}) } else { J::Null };
  RunOut { digest: dig.finish(), nontrivial: true, counters, sets, violations, sample }
}

fn parent_pid() -> u32 { unsafe { libc::getppid() as u32 } }

pub fn hex(b: &[u8]) -> String { b.iter().map(|x| format!("{:02x}", x)).collect() }
pub fn unhex(s: &str) -> Vec<u8> { (0..s.len() / 2).filter_map(|i| u8::from_str_radix(&s[2 * i..2 * i + 2], 16).ok()).collect() }

pub fn worker_run(seed: u64, k: u64, corpus: &std::sync::Arc<Vec<(String, String)>>, thorough: bool, blackbox: Option<&str>) -> J {
  let out = run(seed, k, corpus, thorough, blackbox);
  let violations: Vec<J> = out.violations.iter().map(|(v, replay)| json!({
    "properties": ["C07"], "class": v.class, "signature": v.signature, "summary": format!("run {}: {}", k, v.summary), "replay": replay,
  })).collect();
  json!({
    "digest": out.digest, "nontrivial": out.nontrivial, "state_digests": [], "counters": out.counters, "sets": out.sets,
    "violations": violations, "sample": out.sample,
  })
}

/// Replay of a W3 file in this process: feed the recorded bytes on a node thread with the recorded hash seed.
pub fn replay_in_process(j: &J) -> Option<String> {
  let bytes = unhex(j["bytes_hex"].as_str().unwrap_or(""));
  let hs = j["hash_seed_consumer"].as_u64().unwrap_or(1);
  let mutation: Option<Mutation> = serde_json::from_value(j["mutation"].clone()).ok();
  let emitted_len = j["emitted_len"].as_u64().unwrap_or(bytes.len() as u64) as usize;
  let text = j["program_text"].as_str().unwrap_or("").to_string();
  let hsp = j["hash_seed_producer"].as_u64().unwrap_or(1);
  let read_faults: Option<crate::w3io::ReadFaults> = if j["read_faults"].is_object() { serde_json::from_value(j["read_faults"].clone()).ok() } else { None };
  let via_file = j["mutation"]["kind"].as_str() == Some("f") || j["via_file"].as_bool() == Some(true);
  let r = crate::hashseed::on_node_thread(hs, move || {
    if let Some(f) = read_faults {
      let reference: Result<ParsedProgram, String> = match catch_unwind(AssertUnwindSafe(|| ParsedProgram::from_bytes(&bytes))) { Ok(Ok(p)) => Ok(p), Ok(Err(e)) => Err(e.kind_name()), Err(_) => Err("panicked".into()) };
      let io = crate::w3io::load_through(&bytes, bytes.len() as u64, &f);
      println!("loaded {} bytes through the faulty reader ({}): {:?} reads={} seeks={} fired={:?} largest allocation {}", bytes.len(), f.label, match &io.loaded { crate::w3io::Loaded::Ok(_) => "Ok".to_string(), o => format!("{:?}", o) }, io.reads, io.seeks, io.fired, io.largest_alloc);
      return crate::w3io::judge_io(&f, &io, &reference, bytes.len()).map(|v| v.signature);
    }
    if via_file {
      let p = format!("/dev/shm/mechsim-replay-{}.mecb", std::process::id());
      std::fs::write(&p, &bytes).ok();
      take_last_panic();
      crate::alloc::reset_largest();
      let a = catch_unwind(AssertUnwindSafe(|| load_program_from_file(&p)));
      let la = crate::alloc::largest();
      std::fs::remove_file(&p).ok();
      let b = catch_unwind(AssertUnwindSafe(|| ParsedProgram::from_bytes(&bytes)));
      println!("load_program_from_file: {:?}; from_bytes: {:?}; largest allocation {}", a.as_ref().map(|r| r.as_ref().map(|_| "Ok").map_err(|e| e.kind_name())).map_err(|_| "panic"), b.as_ref().map(|r| r.as_ref().map(|_| "Ok").map_err(|e| e.kind_name())).map_err(|_| "panic"), la);
      return match (&a, &b) {
        (Err(pn), _) => { let (msg, loc) = take_last_panic().unwrap_or((crate::hashseed::panic_message(pn), String::new())); Some(format!("loader-panicked|f|{}|{}", loc, msg_class(&msg))) }
        (Ok(Ok(x)), Ok(Ok(y))) if x == y => None,
        (Ok(Ok(_)), Ok(Ok(_))) => Some("file-entry-disagrees-with-bytes-entry|f|program".to_string()),
        (Ok(Ok(_)), Ok(Err(_))) => Some("file-entry-accepts-what-bytes-entry-rejects|f|".to_string()),
        (Ok(Err(e)), Ok(Ok(_))) => Some(format!("file-entry-rejects-what-bytes-entry-accepts|f|{}", e.kind_name())),
        _ => if la > alloc_limit(bytes.len()) { Some("unbounded-allocation|f|".to_string()) } else { None },
      };
    }
    match mutation {
      Some(m) => { let fr = feed(&bytes, None); println!("fed {} bytes ({}): {:?}, largest allocation {}", bytes.len(), m.label, fr.fed, fr.largest_alloc); judge(&m, &fr, emitted_len).map(|v| v.signature) }
      None => {
        // round-trip class: re-produce the file and re-check
        match produce_on_thread(&text, hsp) { Some((b, ctx)) => check_roundtrip(&b, &ctx).into_iter().next().map(|v| v.signature), None => None }
      }
    }
  });
  match r { Ok(s) => s, Err(msg) => Some(format!("host-aborted|thread|{}", msg_class(&msg))) }
}
fn produce_on_thread(text: &str, hs: u64) -> Option<(Vec<u8>, CtxSummary)> {
  let t = text.to_string();
  match crate::hashseed::on_node_thread(hs, move || produce(&t)) { Ok(Produced::File(b, c)) => Some((b, c)), _ => None }
}
