//! Supervisor / worker plumbing shared by all worlds.
//!
//! The parent re-executes its own binary once per core with a `worker` argument and talks to each
//! worker over its pipes (no fork() of a threaded process). A worker announces `S <k>` before run
//! k and answers `R <k> <json>` after it, so a worker killed by a signal or by abort()
//! (allocation failure, stack overflow, double panic) is attributed to run k, which is then
//! re-executed alone in a fresh worker to confirm, and reported as "host aborted".

use serde_json::{json, Value as J};
use std::collections::{BTreeMap, BTreeSet, HashSet};
use std::io::{BufRead, BufReader, Write};
use std::process::{Child, ChildStdin, Command, Stdio};
use std::sync::mpsc;
use std::time::{Duration, Instant};

/// Wall-clock backstop for one run in flight (seconds). 60 by default; worlds whose runs take
/// milliseconds and whose property includes termination (W4, W5) lower it.
pub static WATCHDOG_S: std::sync::atomic::AtomicU64 = std::sync::atomic::AtomicU64::new(60);
pub fn set_watchdog(secs: u64) { WATCHDOG_S.store(secs, std::sync::atomic::Ordering::SeqCst); }
pub fn watchdog() -> Duration { Duration::from_secs(WATCHDOG_S.load(std::sync::atomic::Ordering::SeqCst)) }
/// After this many worker deaths the batch hands out no further runs: the deaths are confirmed and
/// reported, and a tree that kills or hangs its host on every other run must not cost hours.
pub const CRASH_CAP: usize = 12;

// ---------------------------------------------------------------------------------------------
// worker side

pub fn limit_address_space(bytes: u64) {
  unsafe {
    let lim = libc::rlimit { rlim_cur: bytes, rlim_max: bytes };
    libc::setrlimit(libc::RLIMIT_AS, &lim);
    // no core files from deliberate aborts
    let z = libc::rlimit { rlim_cur: 0, rlim_max: 0 };
    libc::setrlimit(libc::RLIMIT_CORE, &z);
  }
}

/// Serve runs until stdin closes. `run` maps a run index to its JSON result.
/// Set by a world when the process must not serve further runs (e.g. a node thread is stuck in an
/// endless loop inside Mech and cannot be reclaimed): the worker answers the current run and exits;
/// the supervisor starts a fresh worker for the rest of the range.
pub static EXIT_AFTER_RUN: std::sync::atomic::AtomicBool = std::sync::atomic::AtomicBool::new(false);

pub fn worker_loop(mut run: impl FnMut(u64) -> J) {
  let stdin = std::io::stdin();
  // Mech prints to stdout in places (`step` with profiling, single-step mode): keep the protocol on
  // a private duplicate of the pipe and point fd 1 at /dev/null.
  let proto: std::fs::File = unsafe {
    use std::os::unix::io::FromRawFd;
    let fd = libc::dup(1);
    let devnull = libc::open(b"/dev/null\0".as_ptr() as *const libc::c_char, libc::O_WRONLY);
    if devnull >= 0 { libc::dup2(devnull, 1); libc::close(devnull); }
    std::fs::File::from_raw_fd(fd)
  };
  let stdout = std::sync::Mutex::new(proto);
  for line in stdin.lock().lines() {
    let line = match line { Ok(l) => l, Err(_) => break };
    let mut it = line.split_whitespace();
    match it.next() {
      Some("RUN") => {
        let a: u64 = it.next().unwrap().parse().unwrap();
        let b: u64 = it.next().unwrap().parse().unwrap();
        for k in a..b {
          { let mut o = stdout.lock().unwrap(); writeln!(o, "S {}", k).ok(); o.flush().ok(); }
          let r = run(k);
          { let mut o = stdout.lock().unwrap(); writeln!(o, "R {} {}", k, r).ok(); o.flush().ok(); }
          if EXIT_AFTER_RUN.load(std::sync::atomic::Ordering::SeqCst) { std::process::exit(0); }
        }
        { let mut o = stdout.lock().unwrap(); writeln!(o, "D").ok(); o.flush().ok(); }
      }
      Some("QUIT") | None => break,
      _ => {}
    }
  }
}

// ---------------------------------------------------------------------------------------------
// parent side

pub struct Worker {
  child: Child,
  stdin: ChildStdin,
  id: usize,
}

enum Msg { Line(usize, String), Eof(usize) }

pub struct Aggregate {
  pub runs: u64,
  pub digests: HashSet<u64>,
  pub nontrivial_digests: HashSet<u64>,
  pub state_digests: HashSet<u64>,
  pub counters: BTreeMap<String, u64>,
  pub sets: BTreeMap<String, BTreeSet<String>>,
  pub violations: Vec<J>,
  pub samples: Vec<J>,
  pub crashed: Vec<(u64, String)>,
  pub digest_log: Vec<(u64, u64)>,
  pub wall_s: f64,
  pub stopped_by_clock: bool,
  pub stopped_by_deaths: bool,
}

impl Aggregate {
  fn new() -> Self {
    Aggregate { runs: 0, digests: HashSet::new(), nontrivial_digests: HashSet::new(), state_digests: HashSet::new(), counters: BTreeMap::new(), sets: BTreeMap::new(), violations: vec![], samples: vec![], crashed: vec![], digest_log: vec![], wall_s: 0.0, stopped_by_clock: false, stopped_by_deaths: false }
  }
  fn absorb(&mut self, k: u64, r: &J) {
    self.runs += 1;
    let d = r["digest"].as_u64().unwrap_or(0);
    self.digests.insert(d);
    self.digest_log.push((k, d));
    if r["nontrivial"].as_bool().unwrap_or(false) { self.nontrivial_digests.insert(d); }
    if let Some(a) = r["state_digests"].as_array() { for x in a { if let Some(v) = x.as_u64() { self.state_digests.insert(v); } } }
    if let Some(o) = r["counters"].as_object() { for (key, v) in o { *self.counters.entry(key.clone()).or_insert(0) += v.as_u64().unwrap_or(0); } }
    if let Some(o) = r["sets"].as_object() { for (key, v) in o { let e = self.sets.entry(key.clone()).or_default(); if let Some(a) = v.as_array() { for x in a { if let Some(s) = x.as_str() { e.insert(s.to_string()); } } } } }
    if let Some(a) = r["violations"].as_array() { for v in a { self.violations.push(v.clone()); } }
    if !r["sample"].is_null() && self.samples.len() < 6 { self.samples.push(r["sample"].clone()); }
  }
}

fn spawn_worker(id: usize, worker_args: &[String], tx: &mpsc::Sender<Msg>) -> Worker {
  let exe = std::env::current_exe().expect("current_exe");
  let mut child = Command::new(exe)
    .args(worker_args)
    .stdin(Stdio::piped())
    .stdout(Stdio::piped())
    .stderr(Stdio::piped())
    .spawn()
    .expect("spawn worker");
  let stdin = child.stdin.take().unwrap();
  let stdout = child.stdout.take().unwrap();
  let stderr = child.stderr.take().unwrap();
  let tx2 = tx.clone();
  std::thread::spawn(move || {
    for line in BufReader::new(stdout).lines() {
      match line { Ok(l) => { if tx2.send(Msg::Line(id, l)).is_err() { return; } } Err(_) => break }
    }
    tx2.send(Msg::Eof(id)).ok();
  });
  let tx3 = tx.clone();
  std::thread::spawn(move || {
    for line in BufReader::new(stderr).lines() {
      if let Ok(l) = line { if tx3.send(Msg::Line(id, format!("E {}", l))).is_err() { return; } }
    }
  });
  Worker { child, stdin, id }
}

/// Execute runs `0..max_runs` of a world over `jobs` worker processes, stopping to hand out new
/// runs after `budget` of wall clock. Returns the aggregate.
pub fn run_batch(worker_args: Vec<String>, first: u64, max_runs: u64, jobs: usize, budget: Duration, chunk: u64) -> Result<Aggregate, String> {
  let t0 = Instant::now();
  let (tx, rx) = mpsc::channel::<Msg>();
  let mut agg = Aggregate::new();
  let mut workers: BTreeMap<usize, Worker> = BTreeMap::new();
  let mut next_id = 0usize;
  let mut next_run = first;
  let end = first + max_runs;
  // per worker: assigned range end, current run in flight, last stderr lines
  let mut inflight: BTreeMap<usize, (Option<u64>, u64, u64, Instant)> = BTreeMap::new(); // id -> (current k, next k of range, end, since)
  let mut stderr_tail: BTreeMap<usize, Vec<String>> = BTreeMap::new();
  let mut requeue: Vec<(u64, u64)> = vec![];
  let mut crash_counts: BTreeMap<u64, u32> = BTreeMap::new();

  let mut assign = |w: &mut Worker, inflight: &mut BTreeMap<usize, (Option<u64>, u64, u64, Instant)>, next_run: &mut u64, requeue: &mut Vec<(u64, u64)>, stop: bool| -> bool {
    let (a, b) = if let Some(r) = requeue.pop() { r } else {
      if stop || *next_run >= end { return false; }
      let a = *next_run; let b = (a + chunk).min(end); *next_run = b; (a, b)
    };
    if writeln!(w.stdin, "RUN {} {}", a, b).is_err() { requeue.push((a, b)); return false; }
    w.stdin.flush().ok();
    inflight.insert(w.id, (None, a, b, Instant::now()));
    true
  };

  for _ in 0..jobs {
    let mut w = spawn_worker(next_id, &worker_args, &tx);
    next_id += 1;
    if assign(&mut w, &mut inflight, &mut next_run, &mut requeue, false) { workers.insert(w.id, w); } else { drop(w.stdin); let _ = w.child.wait(); }
  }

  while !workers.is_empty() {
    let msg = match rx.recv_timeout(Duration::from_secs(5)) {
      Ok(m) => Some(m),
      Err(mpsc::RecvTimeoutError::Timeout) => None,
      Err(_) => break,
    };
    let mut stop = t0.elapsed() > budget;
    if stop { agg.stopped_by_clock = true; }
    if agg.crashed.len() >= CRASH_CAP { stop = true; agg.stopped_by_deaths = true; requeue.clear(); }
    match msg {
      Some(Msg::Line(id, line)) => {
        if let Some(rest) = line.strip_prefix("S ") {
          let k: u64 = rest.trim().parse().unwrap_or(0);
          if let Some(e) = inflight.get_mut(&id) { e.0 = Some(k); e.3 = Instant::now(); }
        } else if let Some(rest) = line.strip_prefix("R ") {
          let mut parts = rest.splitn(2, ' ');
          let k: u64 = parts.next().unwrap_or("0").parse().unwrap_or(0);
          let body = parts.next().unwrap_or("null");
          match serde_json::from_str::<J>(body) {
            Ok(j) => agg.absorb(k, &j),
            Err(e) => return Err(format!("worker {} sent unparsable result for run {}: {}", id, k, e)),
          }
          if let Some(e) = inflight.get_mut(&id) { e.0 = None; e.1 = k + 1; }
        } else if line == "D" {
          inflight.remove(&id);
          let mut done = true;
          if let Some(w) = workers.get_mut(&id) { if assign(w, &mut inflight, &mut next_run, &mut requeue, stop) { done = false; } }
          if done { if let Some(mut w) = workers.remove(&id) { writeln!(w.stdin, "QUIT").ok(); drop(w.stdin); let _ = w.child.wait(); } }
        } else if let Some(rest) = line.strip_prefix("E ") {
          let t = stderr_tail.entry(id).or_default();
          t.push(rest.to_string());
          if t.len() > 20 { t.remove(0); }
        }
      }
      Some(Msg::Eof(id)) => {
        // worker died (or quit). If it had a run in flight, that run killed the host.
        if let Some(mut w) = workers.remove(&id) {
          let status = w.child.wait().map(|s| format!("{}", s)).unwrap_or_default();
          if let Some((cur, nxt, e, _)) = inflight.remove(&id) {
            let tail = stderr_tail.remove(&id).unwrap_or_default().join(" | ");
            let resume_from = match cur {
              Some(k) => { agg.crashed.push((k, format!("{} ; stderr: {}", status, crate::node::trunc(&tail, 400)))); *crash_counts.entry(k).or_insert(0) += 1; k + 1 }
              None => nxt,
            };
            if resume_from < e { requeue.push((resume_from, e)); }
            // respawn
            let mut nw = spawn_worker(next_id, &worker_args, &tx);
            next_id += 1;
            if assign(&mut nw, &mut inflight, &mut next_run, &mut requeue, stop) { workers.insert(nw.id, nw); } else { drop(nw.stdin); let _ = nw.child.wait(); }
          }
        }
      }
      None => {}
    }
    // watchdog: a run in flight for too long
    let now = Instant::now();
    let stuck: Vec<usize> = inflight.iter().filter(|(_, (cur, _, _, since))| cur.is_some() && now.duration_since(*since) > watchdog()).map(|(id, _)| *id).collect();
    for id in stuck {
      if let Some(w) = workers.get_mut(&id) { let _ = w.child.kill(); }
      stderr_tail.entry(id).or_default().push("WATCHDOG: run exceeded the wall-clock backstop and was killed".into());
    }
  }
  agg.wall_s = t0.elapsed().as_secs_f64();
  Ok(agg)
}

/// Re-execute a single run alone in a fresh worker; Ok(result json) or Err(description of death).
pub fn run_single(worker_args: Vec<String>, k: u64) -> Result<J, String> {
  let a = run_batch(worker_args, k, 1, 1, Duration::from_secs(600), 1)?;
  if let Some((_, why)) = a.crashed.first() { return Err(why.clone()); }
  Ok(json!({"violations": a.violations, "runs": a.runs}))
}

/// Run this binary with `args` as a child, wait at most `secs`; (exit code if it ended by itself,
/// stdout, stderr, timed out).
pub fn child_with_timeout(args: &[String], secs: u64) -> Result<(Option<i32>, String, String, bool), String> {
  let exe = std::env::current_exe().map_err(|e| e.to_string())?;
  let mut child = Command::new(exe).args(args).stdin(Stdio::null()).stdout(Stdio::piped()).stderr(Stdio::piped()).spawn().map_err(|e| e.to_string())?;
  let mut so = child.stdout.take().unwrap();
  let mut se = child.stderr.take().unwrap();
  let h1 = std::thread::spawn(move || { let mut b = vec![]; std::io::Read::read_to_end(&mut so, &mut b).ok(); String::from_utf8_lossy(&b).to_string() });
  let h2 = std::thread::spawn(move || { let mut b = vec![]; std::io::Read::read_to_end(&mut se, &mut b).ok(); String::from_utf8_lossy(&b).to_string() });
  let t0 = Instant::now();
  let mut timed_out = false;
  let status = loop {
    match child.try_wait() {
      Ok(Some(st)) => break Some(st),
      Ok(None) => {
        if t0.elapsed() > Duration::from_secs(secs) { let _ = child.kill(); let _ = child.wait(); timed_out = true; break None; }
        std::thread::sleep(Duration::from_millis(20));
      }
      Err(e) => return Err(e.to_string()),
    }
  };
  let out = h1.join().unwrap_or_default();
  let err = h2.join().unwrap_or_default();
  Ok((status.and_then(|s| s.code()), out, err, timed_out))
}

pub fn default_jobs() -> usize {
  std::env::var("VERIF_JOBS").ok().and_then(|s| s.parse().ok()).unwrap_or_else(|| std::thread::available_parallelism().map(|n| n.get()).unwrap_or(8))
}
