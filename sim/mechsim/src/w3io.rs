//! W3, fault kind i — read-time faults between the storage medium and the real loader.
//!
//! The loader's reader-generic entry (`load_program_from_reader`, what `load_program_from_file`
//! runs over a `File`) is reached through hook H1 (`verif_load_program_from_reader`, compiled only
//! under `--cfg mech_verif`). The reader is the simulator's: it serves the stored bytes in short
//! pieces, interrupts reads (`EINTR`), fails the k-th read or seek (`EIO`), reports end-of-file
//! early (the file shrank after its length was taken) or starts serving other bytes after n calls
//! (the file was rewritten while it was being loaded). Every choice is drawn from the run's PRNG
//! and recorded in the `ReadFaults` value, which is what a replay file carries.

use crate::rng::Rng;
use crate::w3::{alloc_limit, Mutation, Violation};
use crate::node::take_last_panic;
use mech_core::*;
use serde::{Deserialize, Serialize};
use std::io::{self, Read, Seek, SeekFrom};
use std::panic::{catch_unwind, AssertUnwindSafe};

#[derive(Clone, Debug, Serialize, Deserialize, PartialEq, Default)]
pub struct ReadFaults {
  pub label: String,
  /// short reads: every read returns between 1 and `max_chunk` bytes (sizes drawn from `chunk_seed`)
  pub max_chunk: Option<usize>,
  pub chunk_seed: u64,
  /// every n-th read call (n >= 2) returns `Interrupted` instead of data
  pub eintr_every: Option<u64>,
  /// the k-th read call (1-based) fails with an I/O error
  pub eio_at_read: Option<u64>,
  /// the k-th seek call (1-based) fails with an I/O error
  pub fail_seek_at: Option<u64>,
  /// bytes at offsets >= this are gone although the length handed to the loader still counts them
  pub eof_after: Option<u64>,
  /// after this many read calls the medium holds the bytes produced by `swapped`
  pub swap_after_reads: Option<u64>,
  pub swapped: Option<Mutation>,
}

impl ReadFaults {
  /// only faults a correct reader loop must ride out (the result has to equal the fault-free one)
  pub fn benign(&self) -> bool { self.eio_at_read.is_none() && self.fail_seek_at.is_none() && self.eof_after.is_none() && self.swap_after_reads.is_none() }
  pub fn subkind(&self) -> &'static str {
    if self.swap_after_reads.is_some() { "rewritten-underneath" }
    else if self.eof_after.is_some() { "early-eof" }
    else if self.eio_at_read.is_some() { "eio" }
    else if self.fail_seek_at.is_some() { "seek-fails" }
    else if self.max_chunk.is_some() && self.eintr_every.is_some() { "short+eintr" }
    else if self.max_chunk.is_some() { "short" }
    else if self.eintr_every.is_some() { "eintr" }
    else { "none" }
  }
}

pub const READ_CALL_BUDGET: u64 = 8_000_000;

pub struct FaultyReader {
  data: Vec<u8>,
  alt: Option<Vec<u8>>,
  pos: u64,
  f: ReadFaults,
  rng: Rng,
  pub reads: u64,
  pub seeks: u64,
  pub fired_short: u64,
  pub fired_eintr: u64,
  pub fired_eio: u64,
  pub fired_seek: u64,
  pub fired_eof: u64,
  pub fired_swap: u64,
  pub budget_exceeded: bool,
}

impl FaultyReader {
  pub fn new(data: Vec<u8>, f: &ReadFaults) -> FaultyReader {
    let alt = f.swapped.as_ref().map(|m| m.apply(&data));
    FaultyReader { data, alt, pos: 0, f: f.clone(), rng: Rng::new(f.chunk_seed), reads: 0, seeks: 0, fired_short: 0, fired_eintr: 0, fired_eio: 0, fired_seek: 0, fired_eof: 0, fired_swap: 0, budget_exceeded: false }
  }
  pub fn fired_hard(&self) -> bool { self.fired_eio + self.fired_seek + self.fired_eof + self.fired_swap > 0 }
}

impl Read for FaultyReader {
  fn read(&mut self, buf: &mut [u8]) -> io::Result<usize> {
    self.reads += 1;
    if self.reads > READ_CALL_BUDGET { self.budget_exceeded = true; return Err(io::Error::new(io::ErrorKind::Other, "simulator: read-call budget exceeded")); }
    if self.f.eio_at_read == Some(self.reads) { self.fired_eio += 1; return Err(io::Error::new(io::ErrorKind::Other, "EIO (injected)")); }
    if let Some(n) = self.f.eintr_every { if n >= 2 && self.reads % n == 0 { self.fired_eintr += 1; return Err(io::Error::from(io::ErrorKind::Interrupted)); } }
    if self.f.swap_after_reads.map(|n| self.reads > n).unwrap_or(false) {
      if let Some(a) = self.alt.take() { self.data = a; self.fired_swap += 1; }
    }
    if buf.is_empty() { return Ok(0); }
    let mut len = self.data.len() as u64;
    if let Some(e) = self.f.eof_after { if e < len { len = e; if self.pos + buf.len() as u64 > len { self.fired_eof += 1; } } }
    if self.pos >= len { return Ok(0); }
    let avail = (len - self.pos) as usize;
    let want = buf.len().min(avail);
    let mut n = want;
    if let Some(mc) = self.f.max_chunk { n = n.min(1 + self.rng.usize(mc.max(1))); if n < want { self.fired_short += 1; } }
    let p = self.pos as usize;
    buf[..n].copy_from_slice(&self.data[p..p + n]);
    self.pos += n as u64;
    Ok(n)
  }
}

impl Seek for FaultyReader {
  fn seek(&mut self, to: SeekFrom) -> io::Result<u64> {
    self.seeks += 1;
    if self.f.fail_seek_at == Some(self.seeks) { self.fired_seek += 1; return Err(io::Error::new(io::ErrorKind::Other, "seek failed (injected)")); }
    let len = self.data.len() as i128;
    let np: i128 = match to { SeekFrom::Start(p) => p as i128, SeekFrom::End(d) => len + d as i128, SeekFrom::Current(d) => self.pos as i128 + d as i128 };
    if np < 0 { return Err(io::Error::new(io::ErrorKind::InvalidInput, "seek before start")); }
    self.pos = np as u64;
    Ok(self.pos)
  }
}

/// Draw one read-fault plan. `calls_hint` is the number of read calls a fault-free load made, so
/// that k-th-call faults land inside the load more often than after it.
pub fn draw(rng: &mut Rng, file_len: usize, reads_hint: u64, seeks_hint: u64, orig: &[u8]) -> ReadFaults {
  let mut f = ReadFaults::default();
  f.chunk_seed = rng.next();
  let chunk = |rng: &mut Rng| *rng.pick(&[1usize, 1, 2, 3, 7, 8, 16, 61, 512]);
  match rng.below(12) {
    0 | 1 => { f.max_chunk = Some(chunk(rng)); }
    2 => { f.eintr_every = Some(2 + rng.below(5)); }
    3 | 4 => { f.max_chunk = Some(chunk(rng)); f.eintr_every = Some(2 + rng.below(7)); }
    5 | 6 => {
      f.eio_at_read = Some(1 + rng.below(reads_hint.max(1) + 2));
      if rng.chance(1, 2) { f.max_chunk = Some(chunk(rng)); f.eio_at_read = Some(1 + rng.below(reads_hint.max(1) * 4 + 2)); }
    }
    7 => { f.fail_seek_at = Some(1 + rng.below(seeks_hint.max(1) + 1)); if rng.chance(1, 3) { f.max_chunk = Some(chunk(rng)); } }
    8 | 9 => {
      // the file shrank after its length was taken: anywhere, with a bias to the last bytes and section starts
      let e = match rng.below(4) { 0 => file_len.saturating_sub(1 + rng.usize(8)), 1 => rng.usize(crate::w3::HEADER_SIZE.min(file_len).max(1)), _ => rng.usize(file_len.max(1)) };
      f.eof_after = Some(e as u64);
      if rng.chance(1, 3) { f.max_chunk = Some(chunk(rng)); }
    }
    _ => {
      // rewritten underneath: the checksum pass saw the emitted bytes, a later read sees other bytes
      f.swap_after_reads = Some(1 + rng.below(reads_hint.max(1) + 1));
      let m = match rng.below(4) { 0 => crate::w3::crc_fixed_patch(orig, rng), 1 => crate::w3::sector(orig, rng), _ => crate::w3::structural(orig, rng) };
      f.swapped = Some(m);
      if rng.chance(1, 4) { f.max_chunk = Some(chunk(rng)); }
    }
  }
  f.label = format!("read faults [{}]: max_chunk={:?} eintr_every={:?} eio_at_read={:?} fail_seek_at={:?} eof_after={:?} swap_after_reads={:?}{}", f.subkind(), f.max_chunk, f.eintr_every, f.eio_at_read, f.fail_seek_at, f.eof_after, f.swap_after_reads, f.swapped.as_ref().map(|m| format!(" -> {}", m.label)).unwrap_or_default());
  f
}

#[derive(Debug)]
pub enum Loaded { Ok(Box<ParsedProgram>), Err(String), Panicked(String, String) }

pub struct IoResult { pub loaded: Loaded, pub largest_alloc: usize, pub reads: u64, pub seeks: u64, pub fired: Vec<(&'static str, u64)>, pub fired_hard: bool, pub budget_exceeded: bool }

/// The real loader behind the faulty reader (hook H1).
pub fn load_through(data: &[u8], declared_len: u64, f: &ReadFaults) -> IoResult {
  take_last_panic();
  crate::alloc::reset_largest();
  let mut r = FaultyReader::new(data.to_vec(), f);
  let res = catch_unwind(AssertUnwindSafe(|| verif_load_program_from_reader(&mut r, declared_len)));
  let loaded = match res {
    Err(p) => { let (m, l) = take_last_panic().unwrap_or((crate::hashseed::panic_message(&p), String::new())); Loaded::Panicked(m, l) }
    Ok(Err(e)) => Loaded::Err(e.kind_name()),
    Ok(Ok(p)) => Loaded::Ok(Box::new(p)),
  };
  IoResult {
    loaded, largest_alloc: crate::alloc::largest(), reads: r.reads, seeks: r.seeks,
    fired: vec![("short-read", r.fired_short), ("eintr", r.fired_eintr), ("eio", r.fired_eio), ("seek-failed", r.fired_seek), ("early-eof", r.fired_eof), ("rewritten-underneath", r.fired_swap)],
    fired_hard: r.fired_hard(), budget_exceeded: r.budget_exceeded,
  }
}

/// Oracle for one faulty load of `data`. `reference` is what the loader answers for the same bytes
/// without read faults (`Ok(program)` or the error kind).
pub fn judge_io(f: &ReadFaults, io: &IoResult, reference: &Result<ParsedProgram, String>, file_len: usize) -> Option<Violation> {
  let v = |class: &str, detail: String, summary: String| Some(Violation { class: class.to_string(), signature: format!("{}|i|{}", class, detail), summary, mutation: None });
  let sk = f.subkind();
  if let Loaded::Panicked(msg, loc) = &io.loaded {
    return v("loader-panicked", format!("{}|{}|{}", sk, loc, crate::w3::msg_class(msg)), format!("{}: loader panicked: {} @{}", f.label, crate::node::trunc(msg, 120), loc));
  }
  if io.budget_exceeded {
    return v("loader-hung", sk.to_string(), format!("{}: the loader made more than {} read calls on a {}-byte file", f.label, READ_CALL_BUDGET, file_len));
  }
  if io.largest_alloc > alloc_limit(file_len) {
    return v("unbounded-allocation", sk.to_string(), format!("{}: largest single allocation {} bytes for a {}-byte file", f.label, io.largest_alloc, file_len));
  }
  if f.swap_after_reads.is_some() { return None; }
  match (&io.loaded, reference) {
    // short reads and EINTR must be invisible
    (Loaded::Ok(p), Ok(r)) if **p == *r => None,
    (Loaded::Ok(_), Ok(_)) => v("read-faults-changed-the-program", sk.to_string(), format!("{}: the program loaded through the faulty reader differs from the one loaded from the same bytes", f.label)),
    (Loaded::Ok(_), Err(e)) => v("read-faults-made-a-rejected-file-load", sk.to_string(), format!("{}: bytes the loader rejects ({}) were accepted through the faulty reader", f.label, e)),
    (Loaded::Err(e), Ok(_)) if f.benign() => v("benign-read-faults-failed-the-load", format!("{}|{}", sk, e), format!("{}: a load that only met short reads / EINTR failed with {}", f.label, e)),
    (Loaded::Err(e), Err(r)) if f.benign() && e != r => v("benign-read-faults-changed-the-error", format!("{}|{}|{}", sk, r, e), format!("{}: error kind {} became {} under short reads / EINTR", f.label, r, e)),
    _ => None,
  }
}
