//! W1 runner: one session of a real interpreter against the reference store, oracle after every
//! operation, classification of mismatches, minimisation.

use super::gen::*;
use super::model::*;
use super::ops::*;
use crate::node::*;
use crate::rng::{Digest, Rng};
use crate::sv::*;
use serde::{Deserialize, Serialize};
use serde_json::{json, Value as J};
use std::collections::{BTreeMap, BTreeSet};
use std::sync::Arc;

pub const WORLD_ID: u64 = 1;

#[derive(Clone, Debug, Serialize, Deserialize)]
pub struct Violation {
  pub properties: Vec<String>,
  pub class: String,
  /// narrow root-cause signature: class | op kind | detail
  pub signature: String,
  pub op_index: usize,
  pub op_text: String,
  pub expected: String,
  pub observed: String,
}

#[derive(Clone, Debug, Default)]
pub struct RunStats {
  pub ops: u64,
  pub state_changes: u64,
  pub faults_fired: BTreeMap<String, u64>,
  pub reach: BTreeMap<String, u64>,
  pub state_digests: Vec<u64>,
  pub combos_ok: BTreeSet<String>,
  pub combos_err: BTreeSet<String>,
  pub not_code: BTreeSet<String>,
}

pub struct RunResult {
  pub digest: u64,
  pub stats: RunStats,
  /// known findings hit on the way (the model was re-synchronised with the system after each)
  pub known_hits: Vec<Violation>,
  pub violation: Option<Violation>,
  pub ops: Vec<Op>,
  pub log: Vec<String>,
}

fn bump(m: &mut BTreeMap<String, u64>, k: &str) { *m.entry(k.to_string()).or_insert(0) += 1; }

/// Which properties a violation class belongs to.
fn properties_of(class: &str, op: &Op) -> Vec<String> {
  let indexed_matrix_write = matches!(op, Op::IdxAssign { .. } | Op::OpAssign { .. });

  let c04: &[&str] = &["addressed-element-wrong", "frame-violated", "shape-or-kind-changed", "op-assign-arithmetic-wrong", "readback-mismatch"];
  let both: &[&str] = &["torn-write", "missing-rejection", "wrong-rejection"];
  let mut out = vec![];
  if c04.contains(&class) { out.push("C04".to_string()); }
  else if both.contains(&class) && (indexed_matrix_write || matches!(op, Op::Read { e: Expr::VarIdx(..) })) { out.push("C04".to_string()); out.push("C05".to_string()); }
  else { out.push("C05".to_string()); }
  out
}

#[derive(Debug)]
enum Diff { Missing(String), Extra(String), Mutability(String, bool, bool), Value(String, SV, SV) }

fn diff_store(expected: &MStore, observed: &Store) -> Vec<Diff> {
  let mut out = vec![];
  for (n, b) in expected {
    match observed.iter().find(|(on, _, _)| on == n) {
      None => out.push(Diff::Missing(n.clone())),
      Some((_, m, v)) => {
        if *m != b.mutable { out.push(Diff::Mutability(n.clone(), b.mutable, *m)); }
        if *v != b.v { out.push(Diff::Value(n.clone(), b.v.clone(), v.clone())); }
      }
    }
  }
  for (n, _, _) in observed {
    if !expected.contains_key(n) { out.push(Diff::Extra(n.clone())); }
  }
  out
}

fn sig_kind(op: &Op) -> String {
  match op { Op::OpAssign { op: b, .. } => format!("{}:{}", op.kind(), b.name()), o => o.kind().to_string() }
}

fn fault_family(f: &str) -> String {
  // "f5-index-oob@2" -> "f5-index-oob"
  f.split('@').next().unwrap_or(f).split(':').next().unwrap_or(f).to_string()
}

fn flat(v: &SV) -> Vec<SV> {
  match v { SV::Mat(_, _, _, d) => d.clone(), x => vec![x.clone()] }
}

pub enum Source<'a> {
  Generate { rng: &'a mut Rng, knobs: &'a Knobs },
  Explicit(&'a [Op]),
}

pub struct Session {
  pub node: Node,
  pub model: Model,
}

/// Execute one session. Must be called on a node thread (fresh hash seed).
pub fn run_session(mut src: Source, supported: Arc<BTreeSet<String>>, properties: &[&str], known: &[(String, String)]) -> RunResult {
  let mut node = Node::new();
  let mut model = Model::new(supported);
  let mut stats = RunStats::default();
  let mut log: Vec<String> = vec![];
  let mut dig = Digest::new();
  let mut ops_done: Vec<Op> = vec![];
  let mut violation: Option<Violation> = None;
  let mut known_hits: Vec<Violation> = vec![];
  let mut pending_readback: Option<Op> = None;
  let mut i = 0usize;
  loop {
    let op: Op = match &mut src {
      Source::Explicit(ops) => { if i >= ops.len() { break; } ops[i].clone() }
      Source::Generate { rng, knobs } => {
        if i == 0 { set_functions(knobs.functions); if knobs.functions { i += 1; ops_done.push(Op::Raw { text: PRELUDE.to_string() }); let _ = &rng; let t = parse_cached(PRELUDE); if let Ok(t) = t { let o = node.interpret(&t); log.push(format!("#0 [function prelude] => {}", o.show())); if !o.is_ok() { bump(&mut stats.reach, "prelude-rejected"); } } continue; } }
        if i >= knobs.len { break; }
        if let Some(rb) = pending_readback.take() { if rng.chance(2, 3) { rb } else { next_op(rng, knobs, &model) } } else { next_op(rng, knobs, &model) }
      }
    };
    i += 1;
    let text = op.render();
    // render validation: the text must come back from the real parser as exactly this statement
    let tree = match parse_cached(&text) {
      Ok(t) if tree_matches(&op, &t) => t,
      _ => { bump(&mut stats.reach, "not_code"); if stats.not_code.len() < 3 { stats.not_code.insert(text.clone()); } log.push(format!("#{} {}  [dropped: not parsed as the intended statement]", i, text)); dig.str(&text); dig.str("not-code"); continue; }
    };
    let verdict = model.apply(&op);
    let pre = model.store.clone();
    let outcome = node.interpret(&tree);
    let observed = node.store();
    stats.ops += 1;
    bump(&mut stats.reach, &format!("op:{}", op.kind()));
    ops_done.push(op.clone());
    let sd = store_digest(&observed);
    dig.str(&text); dig.str(&outcome.digest_text()); dig.u64(sd);
    stats.state_digests.push(sd);
    log.push(format!("#{} {}  => {}  [{}{}]", i, text, outcome.show(), match verdict.must { Must::Ok => "must-ok", Must::Err => "must-err", Must::Either => "either" }, verdict.fault.as_ref().map(|f| format!(" {}", f)).unwrap_or_default()));

    let mut viol = |class: &str, detail: String, expected: String, observed_s: String| -> Violation {
      // the target itself as the vector source of an indexed (op-)assignment is a recorded finding of its
      // own (elements are read after they were overwritten; the suite pins it): whatever follows from
      // that reading — another element value, an overflow that the old values would (not) have produced —
      // carries its tag, so that nothing else hides behind it and it hides behind nothing else
      let self_source = match &op { Op::IdxAssign { name, e: Expr::Var(n), .. } | Op::OpAssign { name, sub: Some(_), e: Expr::Var(n), .. } => n == name, _ => false };
      let detail = if self_source && ["missing-rejection", "wrong-rejection", "torn-write", "readback-mismatch"].contains(&class) && !detail.starts_with("self-source") {
        let form = match &op { Op::IdxAssign { sub, .. } | Op::OpAssign { sub: Some(sub), .. } => sub.form(), _ => String::new() };
        format!("self-source|{}", form)
      } else { detail };
      Violation {
        properties: properties_of(class, &op),
        class: class.to_string(),
        signature: format!("{}|{}|{}", class, sig_kind(&op), detail),
        op_index: ops_done.len() - 1,
        op_text: text.clone(),
        expected, observed: observed_s,
      }
    };

    let mut found: Option<Violation> = None;
    match &outcome {
      Outcome::Escaped { msg, loc } => {
        found = Some(viol("host-aborted", format!("panic-escaped@{}", loc), "an error value".into(), format!("panic escaped interpret(): {}", trunc(msg, 100))));
      }
      Outcome::ParseErr(_) => unreachable!(),
      Outcome::Err { name, .. } => {
        if let Some(f) = &verdict.fault { bump(&mut stats.faults_fired, &fault_family(f)); }
        bump(&mut stats.reach, &format!("err:{}", name));
        // baseline discovery: only rejections of statements the model considers well-defined and fault-free count
        if verdict.fault.is_none() {
          stats.combos_err.insert(verdict.combo.clone());
          if let Ok(path) = std::env::var("MECHSIM_REJ_LOG") {
            use std::io::Write;
            if let Ok(mut f) = std::fs::OpenOptions::new().create(true).append(true).open(path) { writeln!(f, "{} || {} || {} || store: {}", verdict.combo, text, outcome.show(), show_mstore(&pre)).ok(); }
          }
        }
        if verdict.must == Must::Ok {
          found = Some(viol("wrong-rejection", verdict.combo.clone(), "statement accepted (combination is in the supported baseline)".into(), outcome.show()));
        } else {
          // failure atomicity: every binding and the name set exactly as before
          let diffs = diff_store(&pre, &observed);
          if !diffs.is_empty() {
            let tgt = op.target().unwrap_or("");
            // a name that shares the target's cells through access links (recorded finding) shows the
            // target's partial write too; that adds nothing to what the target's own change says
            let only_target = diffs.iter().all(|d| matches!(d, Diff::Value(n, ..) if n == tgt || derivation_link(&pre, n, tgt).map(|o| link_rank(&o) == 4).unwrap_or(false)))
              && diffs.iter().any(|d| matches!(d, Diff::Value(n, ..) if n == tgt));
            let name_set = diffs.iter().any(|d| matches!(d, Diff::Missing(_) | Diff::Extra(_)));
            let class = if name_set { "failed-statement-changed-name-set" } else if only_target { "torn-write" } else { "failed-statement-changed-binding" };
            let mut fam = verdict.fault.as_ref().map(|f| fault_family(f)).unwrap_or("?".into());
            // where the model had no definite fault in mind, name the failure by what the system hit
            if fam == "?" || fam.starts_with("unsure") || fam.starts_with("repeated") {
              let was_vector_source = fam == "unsure-vector-source";
              if let Outcome::Err { panic: Some((m, _)), .. } = &outcome {
                if m.contains("overflow") || m.contains("divide by zero") { fam = "f4-arith".into(); }
                else if m.contains("out of bounds") { fam = if was_vector_source { "source-shape-mismatch".into() } else { "f5-index-oob".into() }; }
              }
            }
            let form = match &op { Op::IdxAssign { sub, .. } | Op::OpAssign { sub: Some(sub), .. } => sub.form(), _ => String::new() };
            found = Some(viol(class, format!("{}|{}", fam, form), format!("store unchanged: {}", show_mstore(&pre)), format!("{} ; after: {}", outcome.show(), show_store(&observed))));
          } else if !verdict.err_names.is_empty() && !verdict.err_names.contains(&name.as_str()) {
            found = Some(viol("wrong-error-kind", format!("{}", verdict.fault.clone().unwrap_or_default()), format!("{:?}", verdict.err_names), outcome.show()));
          }
        }
      }
      Outcome::Ok(ret) => {
        bump(&mut stats.reach, "ok");
        if verdict.fault.is_none() && !matches!(verdict.after, After::Unknown(..)) { stats.combos_ok.insert(verdict.combo.clone()); }
        if verdict.must == Must::Err {
          let form = match &op { Op::IdxAssign { sub, .. } | Op::OpAssign { sub: Some(sub), .. } => format!("|{}", sub.form()), _ => String::new() };
          found = Some(viol("missing-rejection", format!("{}{}", fault_family(verdict.fault.as_deref().unwrap_or("?")), form), format!("an error ({})", verdict.fault.clone().unwrap_or_default()), format!("{} ; after: {}", outcome.show(), show_store(&observed))));
        } else {
          // expected store after success
          let expected: MStore = match &verdict.after {
            After::Same => pre.clone(),
            After::Store(st) => st.clone(),
            After::Unknown(n, st) => {
              let mut st = st.clone();
              match observed.iter().find(|(on, _, _)| on == n) {
                Some((_, _, v)) => { if let Some(b) = st.get_mut(n) { b.v = v.clone(); } }
                None => { st.remove(n); }
              }
              st
            }
          };
          let diffs = diff_store(&expected, &observed);
          // frame-only verdicts: the target's new values were adopted, but only addressed positions may differ from before
          let mut frame_bad: Option<String> = None;
          if verdict.frame_only {
            if let (Some(t), After::Unknown(..)) = (op.target(), &verdict.after) {
              if let (Some(SV::Mat(k0, r0, c0, d0)), Some((_, _, SV::Mat(k1, r1, c1, d1)))) = (pre.get(t).map(|b| &b.v), observed.iter().find(|(n, _, _)| n == t)) {
                if k0 != k1 || (r0, c0) != (r1, c1) { frame_bad = Some(format!("shape or kind changed: {}:{}x{} -> {}:{}x{}", k0, r0, c0, k1, r1, c1)); }
                else { for i in 0..d0.len() { if d0[i] != d1[i] && !verdict.addressed.contains(&i) { frame_bad = Some(format!("element {} (column-major, 1-based) changed from {} to {} but is not addressed", i + 1, d0[i].show(), d1[i].show())); break; } } }
              }
            }
          }
          if let Some(why) = frame_bad {
            let form = match &op { Op::IdxAssign { sub, .. } | Op::OpAssign { sub: Some(sub), .. } => sub.form(), _ => String::new() };
            let last = verdict.combo.rsplit('|').next().unwrap_or("");
            let srcf = last.split_once(':').map(|(_, b)| b).unwrap_or(last).to_string();
            found = Some(viol("frame-violated", format!("{}|{}", form, srcf), format!("only the addressed elements of the target change: {}", show_mstore(&pre)), format!("{} ; after: {}", why, show_store(&observed))));
          } else if !diffs.is_empty() {
            found = Some(classify_ok_diffs(&op, &verdict, &pre, &expected, &observed, &diffs, &mut viol));
          } else if let Some(exp_ret) = &verdict.ret {
            // non-scalar indexing reads: which elements come back is checked, their arrangement is
            // C03's business (shape and ordering conventions of reads) — compared as multisets
            let same = if verdict.ret_flat { let (mut a, mut b) = (flat(exp_ret), flat(ret)); a.sort(); b.sort(); a == b } else { exp_ret == ret };
            if !same {
              let class = if matches!(op, Op::Read { e: Expr::VarIdx(..) }) { "readback-mismatch" } else { "return-mismatch" };
              found = Some(viol(class, verdict.combo.clone(), exp_ret.show(), ret.show()));
            }
          }
          if found.is_none() {
            if expected != pre { stats.state_changes += 1; }
            model.store = expected;
            if verdict.must != Must::Err { if let Some(rb) = readback_of(&op) { pending_readback = Some(rb); } }
          }
        }
      }
    }
    if let Some(v) = found {
      log.push(format!("   !! {} :: expected {} :: observed {}", v.signature, trunc(&v.expected, 300), trunc(&v.observed, 300)));
      let is_known = known.iter().any(|(p, sig)| v.properties.contains(p) && crate::check::sig_matches(sig, &v.signature));
      if is_known && !matches!(outcome, Outcome::Escaped { .. }) {
        // a recorded finding: note it, adopt the system's state and carry on, so that the rest of
        // the session is still explored (each later manifestation is matched again on its own)
        log.push("   .. known finding; model re-synchronised with the system".to_string());
        bump(&mut stats.reach, "known-finding-resync");
        let mut st = MStore::new();
        for (n, m, val) in &observed {
          let origin = model.store.get(n).map(|b| b.origin.clone()).or_else(|| pre.get(n).map(|b| b.origin.clone())).unwrap_or_else(|| "resync".into());
          let src = model.store.get(n).and_then(|b| b.src.clone()).or_else(|| pre.get(n).and_then(|b| b.src.clone()));
          st.insert(n.clone(), Binding { mutable: *m, v: val.clone(), origin, src });
        }
        model.store = st;
        known_hits.push(v);
        continue;
      }
      if !v.properties.iter().any(|p| properties.contains(&p.as_str())) { bump(&mut stats.reach, "foreign-violation-ended-run"); }
      violation = Some(v);
      break;
    }
  }
  RunResult { digest: dig.finish(), stats, known_hits, violation, ops: ops_done, log }
}

fn origin_tag(pre: &MStore, a: &str) -> String {
  pre.get(a).map(|b| b.origin.clone()).unwrap_or_else(|| "?".into())
}

/// How are two names related in the model? Follows the derivation links (each name -> the variable
/// its defining expression read) in both directions and returns the least excusable link on the
/// path between them (see the comment at the call site in `classify_ok_diffs`), or None.
fn derivation_link(pre: &MStore, n: &str, t0: &str) -> Option<String> {
  let src_of = |x: &str| pre.get(x).and_then(|bd| bd.src.clone());
  let names: Vec<&String> = pre.keys().collect();
  let mut adj: BTreeMap<&str, Vec<(&str, String)>> = BTreeMap::new();
  for u in &names { if let Some(sv) = src_of(u) { if let Some(w) = names.iter().find(|x| ***x == sv) { let o = origin_tag(pre, u); adj.entry(u.as_str()).or_default().push((w.as_str(), o.clone())); adj.entry(w.as_str()).or_default().push((u.as_str(), o)); } } }
  let mut seen: BTreeMap<&str, Vec<String>> = BTreeMap::new();
  let mut queue: std::collections::VecDeque<&str> = Default::default();
  if let Some(start) = names.iter().find(|x| ***x == t0) { seen.insert(start.as_str(), vec![]); queue.push_back(start.as_str()); }
  let mut found: Option<Vec<String>> = None;
  while let Some(u) = queue.pop_front() {
    if u == n { found = seen.get(u).cloned(); break; }
    let here = seen.get(u).cloned().unwrap_or_default();
    for (w, o) in adj.get(u).cloned().unwrap_or_default() { if !seen.contains_key(w) { let mut pth = here.clone(); pth.push(o); seen.insert(w, pth); queue.push_back(w); } }
  }
  found.and_then(|labels| labels.into_iter().min_by_key(|o| link_rank(o)))
}
/// 0-3: links that must copy (sharing through them is a defect of its own); 4: access links, whose sharing is a recorded finding.
fn link_rank(o: &String) -> u8 {
  if o.ends_with("<-var") || o.contains("<-built-") { 0 } else if o.starts_with("destructure") { 1 } else if o.ends_with("<-var-idx") { 2 } else if o.ends_with("<-field") || o.ends_with("<-tuple-elem") || o.ends_with("<-map-get") { 4 } else { 3 }
}

fn classify_ok_diffs(op: &Op, verdict: &Verdict, pre: &MStore, expected: &MStore, observed: &Store, diffs: &[Diff], viol: &mut dyn FnMut(&str, String, String, String) -> Violation) -> Violation {
  let tgt: Vec<String> = match op {
    Op::Destructure { names, .. } => names.clone(),
    o => o.target().map(|s| vec![s.to_string()]).unwrap_or_default(),
  };
  let exp_s = show_mstore(expected);
  let obs_s = show_store(observed);
  // 1. another name changed. Each changed name is explained or not by how it is related to the
  // target in the model; an unexplained one is reported in preference to an explained one (which
  // may be a recorded finding), so that a recorded finding never absorbs an unrelated change.
  let mut explained: Option<Violation> = None;
  for d in diffs {
    if let Diff::Value(n, _, _) = d {
      if !tgt.contains(n) {
        let immut = pre.get(n).map(|b| !b.mutable).unwrap_or(false);
        let class = if immut { "immutable-changed" } else { "alias" };
        let t0 = tgt.get(0).cloned().unwrap_or_default();
        let (a, b) = (origin_tag(pre, n), origin_tag(pre, &t0));
        let src_of = |x: &str| pre.get(x).and_then(|bd| bd.src.clone());
        // How are the two names related in the model? Follow the derivation links (each name -> the
        // variable its defining expression read) in both directions; several hops are common
        // (`x := p.4; ~y := x.x; y = 100` reaches p through two accesses). The tag is the least
        // excusable link on the path: a link that must copy (define from a variable, destructure,
        // index read) outranks the access links, whose sharing is a recorded finding — so a recorded
        // finding never absorbs a chain that needs a copying define to have shared its source.
        let derived: Option<String> = derivation_link(pre, n, &t0);
        let via = match &derived {
          Some(o) if o.ends_with("<-field") => "via-field-access",
          Some(o) if o.ends_with("<-tuple-elem") => "via-tuple-element-access",
          Some(o) if o.ends_with("<-map-get") => "via-map-access",
          Some(o) if o.starts_with("destructure") => "via-destructure",
          Some(o) if o.ends_with("<-var") => "via-define-from-variable",
          Some(o) if o.contains("<-built-") => "via-container-literal",
          Some(o) if o.ends_with("<-var-idx") => "via-index-access",
          Some(_) => "via-other-derivation",
          None => "unrelated-names",
        };
        let v = viol(class, via.to_string(), format!("{} (origins: {}={}, {}={})", exp_s, n, a, t0, b), obs_s.clone());
        if derived.is_none() { return v; }
        if explained.is_none() { explained = Some(v); }
      }
    }
  }
  if let Some(v) = explained { return v; }
  for d in diffs {
    match d {
      Diff::Missing(_) | Diff::Extra(_) => return viol("name-set-wrong", String::new(), exp_s, obs_s),
      Diff::Mutability(_, e, o) => return viol("mutability-wrong", format!("expected-mutable={}|observed-mutable={}", e, o), exp_s, obs_s),
      _ => {}
    }
  }
  // 2. the target itself holds something else
  for d in diffs {
    if let Diff::Value(_, e, o) = d {
      let form = match op { Op::IdxAssign { sub, .. } | Op::OpAssign { sub: Some(sub), .. } => sub.form(), _ => String::new() };
      match (e, o) {
        (SV::Mat(ek, r, c, de), SV::Mat(ok, r2, c2, dob)) if !verdict.addressed.is_empty() => {
          if ek != ok || (r, c) != (r2, c2) { return viol("shape-or-kind-changed", form, exp_s, obs_s); }
          let wrong: Vec<usize> = (0..de.len()).filter(|i| de[*i] != dob[*i]).collect();
          let outside = wrong.iter().any(|i| !verdict.addressed.contains(i));
          let class = if outside { "frame-violated" } else if matches!(op, Op::OpAssign { .. }) { "op-assign-arithmetic-wrong" } else { "addressed-element-wrong" };
          let last = verdict.combo.rsplit('|').next().unwrap_or("");
          let srcf = last.split_once(':').map(|(_, b)| b).unwrap_or(last).to_string();
          // the target itself as the vector source (`x[[2 1]] = x`): elements are read after they were
          // overwritten — a recorded finding of its own (the suite pins the 2-D form of this behaviour)
          let self_source = match op { Op::IdxAssign { name, e: Expr::Var(n), .. } | Op::OpAssign { name, e: Expr::Var(n), .. } => n == name, _ => false };
          if self_source && !outside { return viol(class, format!("self-source|{}", form), exp_s, obs_s); }
          return viol(class, format!("{}|{}", form, srcf), exp_s, obs_s);
        }
        _ => {
          let class = if matches!(op, Op::OpAssign { .. }) { "op-assign-arithmetic-wrong" } else { "wrong-value" };
          return viol(class, verdict.combo.clone(), exp_s, obs_s);
        }
      }
    }
  }
  viol("store-mismatch", String::new(), exp_s, obs_s)
}

pub fn show_mstore(s: &MStore) -> String {
  s.iter().map(|(n, b)| format!("{}{}={}", if b.mutable { "~" } else { "" }, n, b.v.show())).collect::<Vec<_>>().join("; ")
}
pub fn show_store(s: &Store) -> String {
  s.iter().map(|(n, m, v)| format!("{}{}={}", if *m { "~" } else { "" }, n, v.show())).collect::<Vec<_>>().join("; ")
}

// ------------------------------------------------------------------------------------------------
// One run = knobs + hash seed + generated session, all from the run's PRNG stream.

#[derive(Clone, Debug, Serialize, Deserialize)]
pub struct RunPlan {
  pub world: String,
  pub profile: String,
  pub seed: u64,
  pub run: u64,
  pub hash_seed: u64,
  pub knobs: Option<Knobs>,
}

pub fn plan_run(seed: u64, k: u64, profile: &str) -> (RunPlan, Rng) {
  let world_stream = WORLD_ID * 16 + if profile == "C04" { 4 } else { 5 };
  let mut rng = Rng::for_run(seed, world_stream, k);
  let knobs = draw_knobs(&mut rng, profile);
  let hash_seed = rng.next();
  (RunPlan { world: "W1".into(), profile: profile.into(), seed, run: k, hash_seed, knobs: Some(knobs) }, rng)
}

pub fn execute_generated(seed: u64, k: u64, profile: &'static str, supported: Arc<BTreeSet<String>>, known: &[(String, String)]) -> (RunPlan, RunResult) {
  let known: Vec<(String, String)> = known.to_vec();
  let (plan, mut rng) = plan_run(seed, k, profile);
  let knobs = plan.knobs.clone().unwrap();
  let hs = plan.hash_seed;
  let props: Vec<&'static str> = vec![profile];
  let res = crate::hashseed::on_node_thread(hs, move || run_session(Source::Generate { rng: &mut rng, knobs: &knobs }, supported, &props, &known));
  match res {
    Ok(r) => (plan, r),
    Err(msg) => {
      // the node thread itself died from a panic outside every catch_unwind: host aborted
      let v = Violation { properties: vec!["C05".into()], class: "host-aborted".into(), signature: format!("host-aborted|thread|{}", trunc(&msg, 60)), op_index: 0, op_text: String::new(), expected: "an error value".into(), observed: msg };
      (plan, RunResult { digest: 0, stats: RunStats::default(), known_hits: vec![], violation: Some(v), ops: vec![], log: vec![] })
    }
  }
}

pub fn execute_explicit(ops: Vec<Op>, hash_seed: u64, properties: Vec<String>, supported: Arc<BTreeSet<String>>, known: &[(String, String)]) -> RunResult {
  let known: Vec<(String, String)> = known.to_vec();
  let res = crate::hashseed::on_node_thread(hash_seed, move || {
    let props: Vec<&str> = properties.iter().map(|s| s.as_str()).collect();
    run_session(Source::Explicit(&ops), supported, &props, &known)
  });
  match res {
    Ok(r) => r,
    Err(msg) => {
      let v = Violation { properties: vec!["C05".into()], class: "host-aborted".into(), signature: format!("host-aborted|thread|{}", trunc(&msg, 60)), op_index: 0, op_text: String::new(), expected: "an error value".into(), observed: msg };
      RunResult { digest: 0, stats: RunStats::default(), known_hits: vec![], violation: Some(v), ops: vec![], log: vec![] }
    }
  }
}

/// ddmin over the operation list, keeping a candidate only if the same signature persists.
pub fn minimise(ops: &[Op], hash_seed: u64, sig: &str, properties: &[String], supported: Arc<BTreeSet<String>>, known: &[(String, String)]) -> Vec<Op> {
  let same = |cand: &[Op]| -> bool {
    let r = execute_explicit(cand.to_vec(), hash_seed, properties.to_vec(), supported.clone(), known);
    r.violation.map(|v| v.signature == sig).unwrap_or(false)
  };
  let mut cur: Vec<Op> = ops.to_vec();
  // the violating op is the last executed one: everything after it is irrelevant already
  let mut n = 2usize;
  while cur.len() >= 2 {
    let chunk = (cur.len() + n - 1) / n;
    let mut reduced = false;
    let mut start = 0;
    while start < cur.len() {
      let end = (start + chunk).min(cur.len());
      let cand: Vec<Op> = cur[..start].iter().chain(cur[end..].iter()).cloned().collect();
      if !cand.is_empty() && same(&cand) { cur = cand; n = n.saturating_sub(1).max(2); reduced = true; break; }
      start = end;
    }
    if !reduced {
      if n >= cur.len() { break; }
      n = (n * 2).min(cur.len());
    }
  }
  // value simplification: replace variable-built sources by nothing fancy — try dropping single ops once more
  let mut i = 0;
  while i < cur.len() && cur.len() > 1 {
    let mut cand = cur.clone();
    cand.remove(i);
    if same(&cand) { cur = cand; } else { i += 1; }
  }
  cur
}

pub fn replay_json(plan: &RunPlan, ops: &[Op], res: &RunResult, minimised_from: usize) -> J {
  json!({
    "world": "W1",
    "profile": plan.profile,
    "seed": plan.seed,
    "run": plan.run,
    "hash_seed": plan.hash_seed,
    "knobs": plan.knobs,
    "ops": ops,
    "ops_text": ops.iter().map(|o| o.render()).collect::<Vec<_>>(),
    "faults": res.log.iter().filter(|l| l.contains("must-err") || l.contains(" f")).cloned().collect::<Vec<_>>(),
    "event_log": res.log,
    "violation": res.violation,
    "minimised_from_ops": minimised_from,
  })
}
