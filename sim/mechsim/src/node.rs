//! A simulated node: one real `Interpreter` driven through its public API, observed structurally.

use crate::sv::*;
use mech_core::nodes::*;
use mech_core::*;
use mech_interpreter::Interpreter;
use mech_syntax::parser;
use std::cell::RefCell;
use std::collections::BTreeMap;
use std::panic::{catch_unwind, AssertUnwindSafe};

thread_local! {
  static LAST_PANIC: RefCell<Option<(String, String)>> = const { RefCell::new(None) };
  static PANIC_COUNT: std::cell::Cell<u64> = const { std::cell::Cell::new(0) };
}

/// Install a panic hook that prints nothing and records (message, file:line) per thread.
pub fn install_silent_panic_hook() {
  std::panic::set_hook(Box::new(|info| {
    let msg = if let Some(s) = info.payload().downcast_ref::<&'static str>() {
      s.to_string()
    } else if let Some(s) = info.payload().downcast_ref::<String>() {
      s.clone()
    } else {
      "non-string panic".to_string()
    };
    let loc = info.location().map(|l| format!("{}:{}", short_file(l.file()), l.line())).unwrap_or_default();
    LAST_PANIC.with(|p| *p.borrow_mut() = Some((msg, loc)));
    PANIC_COUNT.with(|c| c.set(c.get() + 1));
  }));
}
pub fn take_last_panic() -> Option<(String, String)> {
  LAST_PANIC.with(|p| p.borrow_mut().take())
}
pub fn panic_count() -> u64 {
  PANIC_COUNT.with(|c| c.get())
}
/// "/repo/src/core/src/stdlib.rs" -> "core/src/stdlib.rs"; registry paths -> crate-name/file
pub fn short_file(f: &str) -> String {
  if let Some(i) = f.find("/repo/") {
    let r = &f[i + 6..];
    return r.trim_start_matches("src/").to_string();
  }
  if let Some(i) = f.find("/registry/src/") {
    let r = &f[i + 14..];
    // index.crates.io-xxxx/<crate>-<ver>/src/...
    let mut parts = r.splitn(2, '/');
    parts.next();
    return parts.next().unwrap_or(r).to_string();
  }
  f.to_string()
}

/// What came out of one API call, address-free.
#[derive(Clone, Debug, PartialEq, Eq)]
pub enum Outcome {
  Ok(SV),
  /// MechError: kind name, compiler location "file:line" if any, and — when the error was
  /// produced from a caught panic — the panic message and its location.
  Err { name: String, loc: String, panic: Option<(String, String)> },
  /// A panic escaped the API call (not converted into an error by the system).
  Escaped { msg: String, loc: String },
  /// The text did not parse at all.
  ParseErr(String),
}

impl Outcome {
  pub fn class(&self) -> &'static str {
    match self {
      Outcome::Ok(_) => "ok",
      Outcome::Err { .. } => "err",
      Outcome::Escaped { .. } => "escaped",
      Outcome::ParseErr(_) => "parse-err",
    }
  }
  pub fn is_ok(&self) -> bool { matches!(self, Outcome::Ok(_)) }
  pub fn err_name(&self) -> Option<&str> {
    match self { Outcome::Err { name, .. } => Some(name), _ => None }
  }
  pub fn show(&self) -> String {
    match self {
      Outcome::Ok(v) => format!("ok {}", v.show()),
      Outcome::Err { name, loc, panic } => match panic {
        Some((m, l)) => format!("err {} @{} (panic {:?} @{})", name, loc, trunc(m, 80), l),
        None => format!("err {} @{}", name, loc),
      },
      Outcome::Escaped { msg, loc } => format!("ESCAPED panic {:?} @{}", trunc(msg, 80), loc),
      Outcome::ParseErr(m) => format!("parse-err {}", trunc(m, 60)),
    }
  }
  /// Text used in event-log digests: excludes nothing but is address-free by construction.
  pub fn digest_text(&self) -> String { self.show() }
}

pub fn trunc(s: &str, n: usize) -> String {
  if s.chars().count() > n { format!("{}…", s.chars().take(n).collect::<String>()) } else { s.to_string() }
}

pub fn outcome_of_err(e: &MechError) -> Outcome {
  let loc = e.compiler_location.as_ref().map(|l| format!("{}:{}", short_file(l.file), l.line)).unwrap_or_default();
  Outcome::Err { name: e.kind_name(), loc, panic: take_last_panic() }
}

/// Per-thread parse cache: the parser is a pure function of its text and dominates run time.
thread_local! {
  static PARSE_CACHE: RefCell<BTreeMap<String, Result<Program, String>>> = RefCell::new(BTreeMap::new());
}
pub fn parse_cached(text: &str) -> Result<Program, String> {
  if let Some(r) = PARSE_CACHE.with(|c| c.borrow().get(text).cloned()) {
    return r;
  }
  let r = match catch_unwind(AssertUnwindSafe(|| parser::parse(text))) {
    Ok(Ok(t)) => Ok(t),
    Ok(Err(e)) => Err(format!("{}", e.kind_name())),
    Err(e) => { take_last_panic(); Err(format!("parser panicked: {}", crate::hashseed::panic_message(&e))) }
  };
  PARSE_CACHE.with(|c| {
    let mut c = c.borrow_mut();
    if c.len() > 20_000 { c.clear(); }
    c.insert(text.to_string(), r.clone());
  });
  r
}

/// The code items of a parsed text, or None if anything in it is not code (prose, errors, …).
pub fn code_items(tree: &Program) -> Option<Vec<&MechCode>> {
  let mut out = vec![];
  for s in &tree.body.sections {
    if s.subtitle.is_some() { return None; }
    for e in &s.elements {
      match e {
        SectionElement::MechCode(items) => {
          for (c, _) in items {
            if let MechCode::Error(..) = c { return None; }
            out.push(c);
          }
        }
        _ => return None,
      }
    }
  }
  if tree.title.is_some() { return None; }
  Some(out)
}

pub struct Node {
  pub intrp: Interpreter,
}

impl Node {
  pub fn new() -> Node {
    let mut intrp = Interpreter::new(0);
    intrp.set_trace_to_stdout(false);
    Node { intrp }
  }

  /// `interpret(tree)` with the harness boundary around it.
  pub fn interpret(&mut self, tree: &Program) -> Outcome {
    take_last_panic();
    let r = catch_unwind(AssertUnwindSafe(|| self.intrp.interpret(tree)));
    match r {
      Ok(Ok(v)) => { take_last_panic(); Outcome::Ok(snap(&v)) }
      Ok(Err(e)) => outcome_of_err(&e),
      Err(p) => {
        let (msg, loc) = take_last_panic().unwrap_or((crate::hashseed::panic_message(&p), String::new()));
        Outcome::Escaped { msg, loc }
      }
    }
  }

  pub fn exec_text(&mut self, text: &str) -> Outcome {
    match parse_cached(text) {
      Ok(tree) => self.interpret(&tree),
      Err(m) => Outcome::ParseErr(m),
    }
  }

  pub fn step(&mut self, id: usize, n: u64) -> Outcome {
    take_last_panic();
    let r = catch_unwind(AssertUnwindSafe(|| self.intrp.step(id, n)));
    match r {
      Ok(Ok(v)) => Outcome::Ok(snap(&v)),
      Ok(Err(e)) => outcome_of_err(&e),
      Err(p) => {
        let (msg, loc) = take_last_panic().unwrap_or((crate::hashseed::panic_message(&p), String::new()));
        Outcome::Escaped { msg, loc }
      }
    }
  }

  pub fn store(&self) -> Store {
    snap_symbols(&self.intrp)
  }

  pub fn plan_len(&self) -> usize {
    self.intrp.plan().borrow().len()
  }
}
