//! W5 — state machines against their transition system (C17).
//!
//! System: a real Interpreter with `trace` on and `max_steps` set by the simulator, given a
//! generated machine (specification + implementation + invocation). Oracle: a reference simulation
//! of the same transition system — result value, the *sequence of visited states* parsed from the
//! recorded trace, the transition limit (bounded liveness in steps), rejection of ill-formed
//! machines, and usability of the session after a failed or limited invocation.

use crate::node::*;
use crate::rng::{Digest, Rng};
use crate::sv::*;
use serde::{Deserialize, Serialize};
use serde_json::{json, Value as J};
use std::collections::{BTreeMap, BTreeSet};

pub const WORLD_ID: u64 = 5;

#[derive(Clone, Debug, Serialize, Deserialize, PartialEq)]
pub enum Term { Field(usize), Const(u64), Add(usize, u64), Sub(usize, u64), AddF(usize, usize), SubF(usize, usize) }

#[derive(Clone, Debug, Serialize, Deserialize, PartialEq)]
pub enum Cmp { Gt, Lt, Eq, Ge, Le, Ne }

#[derive(Clone, Debug, Serialize, Deserialize, PartialEq)]
pub enum Guard { Wild, CmpC(usize, Cmp, u64), CmpF(usize, Cmp, usize),
  /// conjunction / disjunction of two comparisons with constants: `a > 1u64 && b < 3u64`, `a > 1u64 || b < 3u64`
  And(usize, Cmp, u64, usize, Cmp, u64), Or(usize, Cmp, u64, usize, Cmp, u64) }

#[derive(Clone, Debug, Serialize, Deserialize, PartialEq)]
pub enum Target { State(usize, Vec<Term>), Done(Term) }

#[derive(Clone, Debug, Serialize, Deserialize, PartialEq)]
pub enum Arm { Direct(Target), Guarded(Vec<(Guard, Target)>) }

#[derive(Clone, Debug, Serialize, Deserialize, PartialEq)]
pub enum IllFormed { None, TargetUndeclared, TargetDeclaredWithoutArm,
  /// the output arm yields a value of another kind than the declared `<u64>` (scalar family only)
  OutputOfOtherKind,
  /// the implementation has an arm for state k (and transitions go to it) but the specification
  /// does not declare it: a run that takes a transition into it goes to an undeclared state
  UndeclaredStateWithArm(usize) }

/// Array-pattern family: one state `:Scan(xs<[u64]>, acc<u64>)` whose arms destructure the vector.
#[derive(Clone, Debug, Serialize, Deserialize, PartialEq)]
pub struct ArrayMachine {
  pub start_acc: u64,
  /// optional arm `:Scan([a, b | tail], acc)` with guard `a CMP b`: then keep a (drop b, acc + b) else keep b (acc + a)
  pub pair_arm: Option<Cmp>,
  /// arm `:Scan([x | rest], acc)`: guard `x CMP c` -> acc + x, else acc + else_add
  pub single_guard: Option<(Cmp, u64)>,
  pub else_add: u64,
  /// the single arm does not consume its element (`-> :Scan([x rest], acc)`): never terminates on non-empty input
  pub no_consume: bool,
  pub done_add: u64,
}

/// General array-pattern family: an ordered list of arms over `:Scan(xs<[u64]>, acc<u64>)`, each with
/// its own array pattern (empty, exact length, `| rest` binding, `…` spread with prefix and suffix
/// elements, repeated names = equality, literal elements), optional guards and a target that
/// builds the next vector from the bound names. The first arm whose pattern matches and one of
/// whose guards holds is taken.
#[derive(Clone, Debug, Serialize, Deserialize, PartialEq)]
pub enum AItem { Name(usize), Lit(u64) }
#[derive(Clone, Debug, Serialize, Deserialize, PartialEq)]
pub enum APat { Empty, Exact(Vec<AItem>), Rest(Vec<AItem>), Spread(Vec<AItem>, Vec<AItem>, bool) }
#[derive(Clone, Debug, Serialize, Deserialize, PartialEq)]
pub enum AVec { Rest, Cons(usize), Of(Vec<usize>) }
#[derive(Clone, Debug, Serialize, Deserialize, PartialEq)]
pub enum AAcc { Acc, AddName(usize), AddConst(u64), NamePlusName(usize, usize), SubName(usize) }
#[derive(Clone, Debug, Serialize, Deserialize, PartialEq)]
pub enum ATarget { Scan(AVec, AAcc), Done(AAcc) }
#[derive(Clone, Debug, Serialize, Deserialize, PartialEq)]
pub enum AGuard { Wild, NameCmpName(usize, Cmp, usize), NameCmpConst(usize, Cmp, u64), AccCmpConst(Cmp, u64) }
#[derive(Clone, Debug, Serialize, Deserialize, PartialEq)]
pub struct AArm { pub pat: APat, pub branches: Vec<(AGuard, ATarget)> }
#[derive(Clone, Debug, Serialize, Deserialize, PartialEq)]
pub struct Array2 { pub start_acc: u64, pub arms: Vec<AArm>,
  /// the machine's input is declared with a sized matrix kind `xs<[u64]:1,N>`: only row vectors of
  /// exactly N elements are arguments of the declared kind
  #[serde(default)] pub sized: Option<usize> }

const ENAMES: [&str; 5] = ["a", "b", "c", "d", "e"];

#[derive(Clone, Debug, Serialize, Deserialize)]
pub struct Machine {
  #[serde(default)]
  pub array2: Option<Array2>,
  #[serde(default)]
  pub array: Option<ArrayMachine>,
  pub arity: usize,
  /// arms of states 0..n (state i is named A, B, C, D); every state carries `arity` u64 fields
  pub arms: Vec<Arm>,
  pub start: Vec<Term>,
  pub ill: IllFormed,
  /// index into NAME_SETS per state (missing = all states use the input names)
  #[serde(default)]
  pub names: Vec<usize>,
}

#[derive(Clone, Debug, Serialize, Deserialize)]
pub enum Invocation { Ok(Vec<u64>), WrongKind(Vec<u64>, usize, String), WrongCount(Vec<u64>),
  /// sized array machines only: a u64 vector of another length than declared, or (true) a column vector
  WrongShape(Vec<u64>, bool) }
// for the array family `Ok(v)` is the input vector; WrongKind(v, _, kind) passes a vector of another
// element kind ("f64" = untyped literals); WrongCount(v) passes the vector and an extra scalar

#[derive(Clone, Debug, Serialize, Deserialize)]
pub struct Plan { pub machine: Machine, pub invocations: Vec<(Invocation, usize)>, pub hash_seed: u64,
  /// how each invocation is written: 0 bare `#M(..)`, 1 `r3 := #M(..)`, 2 arguments through variables defined just before
  #[serde(default)] pub styles: Vec<u8> }

const STATE_NAMES: [&str; 6] = ["A", "B", "C", "D", "Ghost", "Orphan"];
const FIELDS: [&str; 3] = ["n", "a", "b"];
/// per-state field names: states may bind their payload under other names than their neighbours
const NAME_SETS: [[&str; 3]; 4] = [["n", "a", "b"], ["p", "q", "r"], ["x", "y", "z"], ["a", "n", "b"]];

fn term_text(t: &Term, f: &[&str; 3]) -> String {
  match t {
    Term::Field(i) => f[*i].to_string(),
    Term::Const(c) => format!("{}u64", c),
    Term::Add(i, c) => format!("{} + {}u64", f[*i], c),
    Term::Sub(i, c) => format!("{} - {}u64", f[*i], c),
    Term::AddF(i, j) => format!("{} + {}", f[*i], f[*j]),
    Term::SubF(i, j) => format!("{} - {}", f[*i], f[*j]),
  }
}
fn cmp_text(c: &Cmp) -> &'static str { match c { Cmp::Gt => ">", Cmp::Lt => "<", Cmp::Eq => "==", Cmp::Ge => ">=", Cmp::Le => "<=", Cmp::Ne => "!=" } }
fn guard_text(g: &Guard, f: &[&str; 3]) -> String {
  match g {
    Guard::Wild => "*".to_string(),
    Guard::CmpC(i, c, k) => format!("{} {} {}u64", f[*i], cmp_text(c), k),
    Guard::CmpF(i, c, j) => format!("{} {} {}", f[*i], cmp_text(c), f[*j]),
    Guard::And(i, c1, k1, j, c2, k2) => format!("{} {} {}u64 && {} {} {}u64", f[*i], cmp_text(c1), k1, f[*j], cmp_text(c2), k2),
    Guard::Or(i, c1, k1, j, c2, k2) => format!("{} {} {}u64 || {} {} {}u64", f[*i], cmp_text(c1), k1, f[*j], cmp_text(c2), k2),
  }
}
fn target_text(t: &Target, f: &[&str; 3]) -> String {
  match t {
    Target::State(s, terms) => format!(":{}({})", STATE_NAMES[*s], terms.iter().map(|x| term_text(x, f)).collect::<Vec<_>>().join(", ")),
    Target::Done(t) => format!(":Done({})", term_text(t, f)),
  }
}

fn render_array(a: &ArrayMachine) -> String {
  let mut s = String::from("#M(xs<[u64]>) => <u64>\n  ├ :Scan(xs<[u64]>, acc<u64>)\n  └ :Done(out<u64>).\n\n");
  s.push_str(&format!("#M(xs<[u64]>) -> :Scan(xs, {}u64)\n", a.start_acc));
  if let Some(c) = &a.pair_arm {
    s.push_str("  :Scan([a, b | tail], acc)\n");
    s.push_str(&format!("    ├ a {} b -> :Scan([a tail], acc + b)\n", cmp_text(c)));
    s.push_str("    └ * -> :Scan([b tail], acc + a)\n");
  }
  let next = if a.no_consume { "[x rest]" } else { "rest" };
  match &a.single_guard {
    Some((c, k)) => {
      s.push_str("  :Scan([x | rest], acc)\n");
      s.push_str(&format!("    ├ x {} {}u64 -> :Scan({}, acc + x)\n", cmp_text(c), k, next));
      s.push_str(&format!("    └ * -> :Scan({}, acc + {}u64)\n", next, a.else_add));
    }
    None => s.push_str(&format!("  :Scan([x | rest], acc) -> :Scan({}, acc + x)\n", next)),
  }
  s.push_str(&format!("  :Scan([], acc) -> :Done(acc + {}u64)\n", a.done_add));
  s.push_str("  :Done(out) => out.\n");
  s
}

fn aitem_text(i: &AItem) -> String { match i { AItem::Name(n) => ENAMES[*n].to_string(), AItem::Lit(v) => format!("{}u64", v) } }
fn apat_text(p: &APat) -> String {
  let items = |v: &Vec<AItem>| v.iter().map(aitem_text).collect::<Vec<_>>().join(", ");
  match p {
    APat::Empty => "[]".to_string(),
    APat::Exact(v) => format!("[{}]", items(v)),
    APat::Rest(v) => format!("[{} | rest]", items(v)),
    APat::Spread(pre, suf, uni) => {
      let dots = if *uni { "…" } else { "..." };
      let mut parts = vec![];
      if !pre.is_empty() { parts.push(items(pre)); }
      parts.push(dots.to_string());
      if !suf.is_empty() { parts.push(items(suf)); }
      format!("[{}]", parts.join(" "))
    }
  }
}
fn avec_text(v: &AVec) -> String {
  match v { AVec::Rest => "rest".to_string(), AVec::Cons(n) => format!("[{} rest]", ENAMES[*n]), AVec::Of(ns) => format!("[{}]", ns.iter().map(|n| ENAMES[*n]).collect::<Vec<_>>().join(" ")) }
}
fn aacc_text(a: &AAcc) -> String {
  match a { AAcc::Acc => "acc".to_string(), AAcc::AddName(n) => format!("acc + {}", ENAMES[*n]), AAcc::AddConst(k) => format!("acc + {}u64", k), AAcc::NamePlusName(i, j) => format!("{} + {}", ENAMES[*i], ENAMES[*j]), AAcc::SubName(n) => format!("acc - {}", ENAMES[*n]) }
}
fn atarget_text(t: &ATarget) -> String { match t { ATarget::Scan(v, a) => format!(":Scan({}, {})", avec_text(v), aacc_text(a)), ATarget::Done(a) => format!(":Done({})", aacc_text(a)) } }
fn aguard_text(g: &AGuard) -> String {
  match g { AGuard::Wild => "*".to_string(), AGuard::NameCmpName(i, c, j) => format!("{} {} {}", ENAMES[*i], cmp_text(c), ENAMES[*j]), AGuard::NameCmpConst(i, c, k) => format!("{} {} {}u64", ENAMES[*i], cmp_text(c), k), AGuard::AccCmpConst(c, k) => format!("acc {} {}u64", cmp_text(c), k) }
}
fn render_array2(a: &Array2) -> String {
  let xs_kind = match a.sized { Some(n) => format!("[u64]:1,{}", n), None => "[u64]".to_string() };
  let mut s = format!("#M(xs<{}>) => <u64>\n  ├ :Scan(xs<[u64]>, acc<u64>)\n  └ :Done(out<u64>).\n\n", xs_kind);
  s.push_str(&format!("#M(xs<{}>) -> :Scan(xs, {}u64)\n", xs_kind, a.start_acc));
  for arm in &a.arms {
    if arm.branches.len() == 1 && arm.branches[0].0 == AGuard::Wild {
      s.push_str(&format!("  :Scan({}, acc) -> {}\n", apat_text(&arm.pat), atarget_text(&arm.branches[0].1)));
    } else {
      s.push_str(&format!("  :Scan({}, acc)\n", apat_text(&arm.pat)));
      for (j, (g, t)) in arm.branches.iter().enumerate() {
        let pre = if j + 1 == arm.branches.len() { "└" } else { "├" };
        s.push_str(&format!("    {} {} -> {}\n", pre, aguard_text(g), atarget_text(t)));
      }
    }
  }
  s.push_str("  :Done(out) => out.\n");
  s
}

/// Matching of one array pattern against a vector: bindings by name index, and the rest slice.
fn amatch(p: &APat, xs: &[u64]) -> Option<(BTreeMap<usize, u64>, Vec<u64>)> {
  let mut env: BTreeMap<usize, u64> = BTreeMap::new();
  let mut item = |it: &AItem, v: u64, env: &mut BTreeMap<usize, u64>| -> bool {
    match it { AItem::Lit(k) => *k == v, AItem::Name(n) => match env.get(n) { Some(old) => *old == v, None => { env.insert(*n, v); true } } }
  };
  match p {
    APat::Empty => if xs.is_empty() { Some((env, vec![])) } else { None },
    APat::Exact(items) => {
      if xs.len() != items.len() { return None; }
      for (it, v) in items.iter().zip(xs.iter()) { if !item(it, *v, &mut env) { return None; } }
      Some((env, vec![]))
    }
    APat::Rest(items) => {
      if xs.len() < items.len() { return None; }
      for (it, v) in items.iter().zip(xs.iter()) { if !item(it, *v, &mut env) { return None; } }
      Some((env, xs[items.len()..].to_vec()))
    }
    APat::Spread(pre, suf, _) => {
      if xs.len() < pre.len() + suf.len() { return None; }
      for (it, v) in pre.iter().zip(xs.iter()) { if !item(it, *v, &mut env) { return None; } }
      let st = xs.len() - suf.len();
      for (it, v) in suf.iter().zip(xs[st..].iter()) { if !item(it, *v, &mut env) { return None; } }
      Some((env, vec![]))
    }
  }
}

fn reference_array2(a: &Array2, input: &[u64]) -> RefRun {
  let c = |c: &Cmp, x: u64, y: u64| match c { Cmp::Gt => x > y, Cmp::Lt => x < y, Cmp::Eq => x == y, Cmp::Ge => x >= y, Cmp::Le => x <= y, Cmp::Ne => x != y };
  let mut xs: Vec<u64> = input.to_vec();
  let mut acc = a.start_acc;
  let mut visited = vec![]; let mut taken = vec![];
  let mut seen: BTreeSet<(Vec<u64>, u64)> = BTreeSet::new();
  for _ in 0..5000 {
    visited.push((0usize, vec![acc]));
    if !seen.insert((xs.clone(), acc)) { visited.pop(); return RefRun { visited, taken, end: RefEnd::Loops }; }
    let mut chosen: Option<(usize, &ATarget, BTreeMap<usize, u64>, Vec<u64>)> = None;
    'arms: for arm in &a.arms {
      if let Some((env, rest)) = amatch(&arm.pat, &xs) {
        for (gi, (g, t)) in arm.branches.iter().enumerate() {
          let holds = match g {
            AGuard::Wild => true,
            AGuard::NameCmpName(i, cm, j) => c(cm, env[i], env[j]),
            AGuard::NameCmpConst(i, cm, k) => c(cm, env[i], *k),
            AGuard::AccCmpConst(cm, k) => c(cm, acc, *k),
          };
          if holds { chosen = Some((gi, t, env.clone(), rest.clone())); break 'arms; }
        }
      }
    }
    let (gi, target, env, rest) = match chosen { Some(x) => x, None => return RefRun { visited, taken, end: RefEnd::NoGuardHolds } };
    taken.push(gi);
    let eval_acc = |e: &AAcc| -> Option<u64> { match e { AAcc::Acc => Some(acc), AAcc::AddName(n) => acc.checked_add(env[n]), AAcc::AddConst(k) => acc.checked_add(*k), AAcc::NamePlusName(i, j) => env[i].checked_add(env[j]), AAcc::SubName(n) => acc.checked_sub(env[n]) } };
    match target {
      ATarget::Done(e) => return match eval_acc(e) { Some(v) => RefRun { visited, taken, end: RefEnd::Value(v) }, None => RefRun { visited, taken, end: RefEnd::Overflow } },
      ATarget::Scan(v, e) => {
        let nacc = match eval_acc(e) { Some(v) => v, None => return RefRun { visited, taken, end: RefEnd::Overflow } };
        let nxs: Vec<u64> = match v { AVec::Rest => rest.clone(), AVec::Cons(n) => std::iter::once(env[n]).chain(rest.iter().copied()).collect(), AVec::Of(ns) => ns.iter().map(|n| env[n]).collect() };
        xs = nxs; acc = nacc;
      }
    }
  }
  RefRun { visited, taken, end: RefEnd::TooLong }
}

fn gen_array2(rng: &mut Rng) -> Array2 {
  let cmps = [Cmp::Gt, Cmp::Lt, Cmp::Eq, Cmp::Ge, Cmp::Le, Cmp::Ne];
  let n_arms = 2 + rng.usize(4);
  let mut arms = vec![];
  for _ in 0..n_arms {
    // items: fresh names in order, sometimes a repeated earlier name (equality) or a literal
    let mut next_name = 0usize;
    let mut mk_items = |rng: &mut Rng, n: usize, next_name: &mut usize| -> Vec<AItem> {
      (0..n).map(|_| match rng.below(12) {
        0 if *next_name > 0 => AItem::Name(rng.usize(*next_name)),
        1 => AItem::Lit(*rng.pick(&[0u64, 1, 2, 3, 5])),
        _ => { let i = *next_name; *next_name += 1; AItem::Name(i) }
      }).collect()
    };
    let pat = match rng.below(10) {
      0 => APat::Empty,
      1 | 2 => { let n = 1 + rng.usize(3); APat::Exact(mk_items(rng, n, &mut next_name)) }
      3 | 4 | 5 => { let n = 1 + rng.usize(2); APat::Rest(mk_items(rng, n, &mut next_name)) }
      _ => { let (p, q) = *rng.pick(&[(1usize, 0usize), (0, 1), (1, 1), (1, 1), (2, 1), (1, 2), (2, 0), (0, 2), (2, 2)]); let pre = mk_items(rng, p, &mut next_name); let suf = mk_items(rng, q, &mut next_name); APat::Spread(pre, suf, rng.chance(1, 2)) }
    };
    let bound: Vec<usize> = { let mut b = vec![]; let mut add = |v: &Vec<AItem>| for it in v { if let AItem::Name(n) = it { if !b.contains(n) { b.push(*n); } } }; match &pat { APat::Empty => {}, APat::Exact(v) | APat::Rest(v) => add(v), APat::Spread(p, q, _) => { add(p); add(q); } } b };
    let has_rest = matches!(pat, APat::Rest(_));
    let mk_acc = |rng: &mut Rng| -> AAcc {
      if bound.is_empty() { return if rng.chance(1, 2) { AAcc::Acc } else { AAcc::AddConst(*rng.pick(&[1u64, 7, 100])) }; }
      match rng.below(10) { 0 | 1 => AAcc::Acc, 2 => AAcc::AddConst(*rng.pick(&[1u64, 7, 100])), 3 if bound.len() >= 2 => AAcc::NamePlusName(bound[0], bound[bound.len() - 1]), 4 => AAcc::SubName(*rng.pick(&bound)), _ => AAcc::AddName(*rng.pick(&bound)) }
    };
    let mk_target = |rng: &mut Rng| -> ATarget {
      let done_bias = match &pat { APat::Empty => 10, APat::Exact(_) => 6, APat::Spread(..) => 4, APat::Rest(_) => 1 };
      if rng.below(10) < done_bias || (bound.is_empty() && !has_rest) { return ATarget::Done(mk_acc(rng)); }
      let v = if has_rest { match rng.below(8) { 0 if !bound.is_empty() => AVec::Cons(*rng.pick(&bound)), 1 if !bound.is_empty() => AVec::Of(vec![*rng.pick(&bound)]), _ => AVec::Rest } }
              else { let n = if bound.len() >= 2 && rng.chance(1, 3) { 2 } else { 1 }; AVec::Of((0..n).map(|_| *rng.pick(&bound)).collect()) };
      ATarget::Scan(v, mk_acc(rng))
    };
    let mk_guard = |rng: &mut Rng| -> AGuard {
      match rng.below(4) { 0 if bound.len() >= 2 => AGuard::NameCmpName(bound[0], rng.pick(&cmps).clone(), bound[1]), 1 => AGuard::AccCmpConst(rng.pick(&cmps).clone(), *rng.pick(&[0u64, 1, 5, 10])), _ if !bound.is_empty() => AGuard::NameCmpConst(*rng.pick(&bound), rng.pick(&cmps).clone(), *rng.pick(&[0u64, 1, 2, 3, 5])), _ => AGuard::AccCmpConst(rng.pick(&cmps).clone(), *rng.pick(&[0u64, 1, 5, 10])) }
    };
    let mut branches = vec![];
    if rng.chance(1, 3) {
      let ng = 1 + rng.usize(2);
      for _ in 0..ng { branches.push((mk_guard(rng), mk_target(rng))); }
      if rng.chance(3, 4) { branches.push((AGuard::Wild, mk_target(rng))); }
    } else { branches.push((AGuard::Wild, mk_target(rng))); }
    arms.push(AArm { pat, branches });
  }
  // most machines end with the catch-alls that make them total
  if rng.chance(4, 5) {
    if !arms.iter().any(|a| matches!(a.pat, APat::Rest(_)) && a.branches.last().map(|b| b.0 == AGuard::Wild).unwrap_or(false)) {
      arms.push(AArm { pat: APat::Rest(vec![AItem::Name(0)]), branches: vec![(AGuard::Wild, ATarget::Scan(AVec::Rest, AAcc::AddName(0)))] });
    }
    if !arms.iter().any(|a| a.pat == APat::Empty) { arms.push(AArm { pat: APat::Empty, branches: vec![(AGuard::Wild, ATarget::Done(AAcc::AddConst(*rng.pick(&[0u64, 1, 7]))))] }); }
  }
  Array2 { start_acc: *rng.pick(&[0u64, 0, 1, 10]), arms, sized: if rng.chance(1, 4) { Some(1 + rng.usize(5)) } else { None } }
}

impl Machine {
  pub fn is_array(&self) -> bool { self.array.is_some() || self.array2.is_some() }
  pub fn render(&self) -> String {
    if let Some(a) = &self.array2 { return render_array2(a); }
    if let Some(a) = &self.array { return render_array(a); }
    let k = self.arity;
    let typed: Vec<String> = (0..k).map(|i| format!("{}<u64>", FIELDS[i])).collect();
    let mut s = format!("#M({}) => <u64>\n", typed.join(", "));
    let mut declared: Vec<usize> = (0..self.arms.len()).collect();
    if self.ill == IllFormed::TargetDeclaredWithoutArm { declared.push(5); }
    if let IllFormed::UndeclaredStateWithArm(k) = self.ill { declared.retain(|s| *s != k); }
    for st in &declared { s.push_str(&format!("  ├ :{}({})\n", STATE_NAMES[*st], typed.join(", "))); }
    s.push_str("  └ :Done(out<u64>).\n\n");
    s.push_str(&format!("#M({}) -> :A({})\n", typed.join(", "), self.start.iter().map(|x| term_text(x, &FIELDS)).collect::<Vec<_>>().join(", ")));
    for (i, arm) in self.arms.iter().enumerate() {
      let f: &[&str; 3] = &NAME_SETS[self.names.get(i).copied().unwrap_or(0) % NAME_SETS.len()];
      let plain: Vec<String> = (0..k).map(|j| f[j].to_string()).collect();
      match arm {
        Arm::Direct(t) => s.push_str(&format!("  :{}({}) -> {}\n", STATE_NAMES[i], plain.join(", "), target_text(t, f))),
        Arm::Guarded(gs) => {
          s.push_str(&format!("  :{}({})\n", STATE_NAMES[i], plain.join(", ")));
          for (j, (g, t)) in gs.iter().enumerate() {
            let pre = if j + 1 == gs.len() { "└" } else { "├" };
            s.push_str(&format!("    {} {} -> {}\n", pre, guard_text(g, f), target_text(t, f)));
          }
        }
      }
    }
    if self.ill == IllFormed::OutputOfOtherKind {
      s.push_str(&format!("  :Done(out) => {}.\n", ["1.5", "\"s\"", "7u8"][self.arity % 3]));
    } else {
      s.push_str("  :Done(out) => out.\n");
    }
    s
  }
}

fn render_invocation_for(m: &Machine, inv: &Invocation) -> String {
  if !m.is_array() { return render_invocation(inv); }
  let vec_of = |v: &Vec<u64>, kind: &str| format!("[{}]", v.iter().map(|x| match kind { "f64" => format!("{}", x), k => format!("{}{}", x, k) }).collect::<Vec<_>>().join(" "));
  match inv {
    Invocation::Ok(v) => format!("#M({})", vec_of(v, "u64")),
    Invocation::WrongKind(v, _, kind) => format!("#M({})", vec_of(v, if kind == "i64" { "u8" } else { kind })),
    Invocation::WrongCount(v) => format!("#M({}, 1u64)", vec_of(v, "u64")),
    Invocation::WrongShape(v, false) => format!("#M({})", vec_of(v, "u64")),
    Invocation::WrongShape(v, true) => format!("#M([{}])", v.iter().map(|x| format!("{}u64", x)).collect::<Vec<_>>().join("; ")),
  }
}

fn render_invocation(inv: &Invocation) -> String {
  match inv {
    Invocation::Ok(v) | Invocation::WrongCount(v) | Invocation::WrongShape(v, _) => format!("#M({})", v.iter().map(|x| format!("{}u64", x)).collect::<Vec<_>>().join(", ")),
    Invocation::WrongKind(v, pos, kind) => format!("#M({})", v.iter().enumerate().map(|(i, x)| if i == *pos { match kind.as_str() { "f64" => format!("{}", x), k => format!("{}<{}>", x, k) } } else { format!("{}u64", x) }).collect::<Vec<_>>().join(", ")),
  }
}

// -------------------------------------------------------------------------------------------------
// reference transition system

#[derive(Clone, Debug, PartialEq)]
pub enum RefEnd { Value(u64), Overflow, Loops, NoGuardHolds, TooLong }

#[derive(Clone, Debug)]
pub struct RefRun {
  /// visited states in order: (state index, payload)
  pub visited: Vec<(usize, Vec<u64>)>,
  /// guard index taken at each visited state (0 for direct arms)
  pub taken: Vec<usize>,
  pub end: RefEnd,
}

fn eval_term(t: &Term, f: &[u64]) -> Option<u64> {
  match t {
    Term::Field(i) => Some(f[*i]),
    Term::Const(c) => Some(*c),
    Term::Add(i, c) => f[*i].checked_add(*c),
    Term::Sub(i, c) => f[*i].checked_sub(*c),
    Term::AddF(i, j) => f[*i].checked_add(f[*j]),
    Term::SubF(i, j) => f[*i].checked_sub(f[*j]),
  }
}
fn eval_guard(g: &Guard, f: &[u64]) -> bool {
  let c = |c: &Cmp, a: u64, b: u64| match c { Cmp::Gt => a > b, Cmp::Lt => a < b, Cmp::Eq => a == b, Cmp::Ge => a >= b, Cmp::Le => a <= b, Cmp::Ne => a != b };
  match g { Guard::Wild => true, Guard::CmpC(i, cm, k) => c(cm, f[*i], *k), Guard::CmpF(i, cm, j) => c(cm, f[*i], f[*j]), Guard::And(i, c1, k1, j, c2, k2) => c(c1, f[*i], *k1) && c(c2, f[*j], *k2), Guard::Or(i, c1, k1, j, c2, k2) => c(c1, f[*i], *k1) || c(c2, f[*j], *k2) }
}

fn reference_array(a: &ArrayMachine, input: &[u64]) -> RefRun {
  // state = (vector, acc); visited records ("Scan", [acc]) — the vector itself is not parsed from the trace
  let c = |c: &Cmp, x: u64, y: u64| match c { Cmp::Gt => x > y, Cmp::Lt => x < y, Cmp::Eq => x == y, Cmp::Ge => x >= y, Cmp::Le => x <= y, Cmp::Ne => x != y };
  let mut xs: Vec<u64> = input.to_vec();
  let mut acc = a.start_acc;
  let mut visited = vec![]; let mut taken = vec![];
  let mut seen: BTreeSet<(Vec<u64>, u64)> = BTreeSet::new();
  for _ in 0..5000 {
    visited.push((0usize, vec![acc]));
    if !seen.insert((xs.clone(), acc)) { visited.pop(); return RefRun { visited, taken, end: RefEnd::Loops }; }
    if xs.len() >= 2 && a.pair_arm.is_some() {
      let (p, q) = (xs[0], xs[1]);
      let tail: Vec<u64> = xs[2..].to_vec();
      if c(a.pair_arm.as_ref().unwrap(), p, q) { acc = match acc.checked_add(q) { Some(v) => v, None => return RefRun { visited, taken, end: RefEnd::Overflow } }; xs = std::iter::once(p).chain(tail).collect(); taken.push(0); }
      else { acc = match acc.checked_add(p) { Some(v) => v, None => return RefRun { visited, taken, end: RefEnd::Overflow } }; xs = std::iter::once(q).chain(tail).collect(); taken.push(1); }
      continue;
    }
    if !xs.is_empty() {
      let x = xs[0];
      let (add, gi) = match &a.single_guard { Some((cm, k)) => if c(cm, x, *k) { (x, 0) } else { (a.else_add, 1) }, None => (x, 0) };
      acc = match acc.checked_add(add) { Some(v) => v, None => return RefRun { visited, taken, end: RefEnd::Overflow } };
      if !a.no_consume { xs.remove(0); }
      taken.push(gi);
      continue;
    }
    taken.push(0);
    return match acc.checked_add(a.done_add) { Some(v) => RefRun { visited, taken, end: RefEnd::Value(v) }, None => RefRun { visited, taken, end: RefEnd::Overflow } };
  }
  RefRun { visited, taken, end: RefEnd::TooLong }
}

pub fn reference(m: &Machine, input: &[u64]) -> RefRun {
  if let Some(a) = &m.array2 { return reference_array2(a, input); }
  if let Some(a) = &m.array { return reference_array(a, input); }
  let mut visited = vec![];
  let mut taken = vec![];
  let mut seen: BTreeSet<(usize, Vec<u64>)> = BTreeSet::new();
  let mut payload: Vec<u64> = vec![];
  for t in &m.start { match eval_term(t, input) { Some(v) => payload.push(v), None => return RefRun { visited, taken, end: RefEnd::Overflow } } }
  let mut state = 0usize;
  for _ in 0..5000 {
    visited.push((state, payload.clone()));
    if !seen.insert((state, payload.clone())) { visited.pop(); return RefRun { visited, taken, end: RefEnd::Loops }; }
    let (gi, target) = match &m.arms[state] {
      Arm::Direct(t) => (0, t),
      Arm::Guarded(gs) => match gs.iter().enumerate().find(|(_, (g, _))| eval_guard(g, &payload)) { Some((i, (_, t))) => (i, t), None => return RefRun { visited, taken, end: RefEnd::NoGuardHolds } },
    };
    taken.push(gi);
    match target {
      Target::Done(t) => return match eval_term(t, &payload) { Some(v) => RefRun { visited, taken, end: RefEnd::Value(v) }, None => RefRun { visited, taken, end: RefEnd::Overflow } },
      Target::State(s, terms) => {
        let mut np = vec![];
        for t in terms { match eval_term(t, &payload) { Some(v) => np.push(v), None => return RefRun { visited, taken, end: RefEnd::Overflow } } }
        state = *s; payload = np;
      }
    }
  }
  RefRun { visited, taken, end: RefEnd::TooLong }
}

// -------------------------------------------------------------------------------------------------
// generator

fn gen_term(rng: &mut Rng, k: usize) -> Term {
  let i = rng.usize(k); let j = rng.usize(k);
  match rng.below(10) {
    0..=2 => Term::Field(i),
    3 => Term::Const(*rng.pick(&[0u64, 1, 2, 5, 10])),
    4 | 5 => Term::Sub(i, *rng.pick(&[1u64, 1, 2, 3])),
    6 => Term::Add(i, *rng.pick(&[1u64, 2, 10])),
    7 => Term::AddF(i, j),
    8 => Term::SubF(i, j),
    _ => Term::Field(j),
  }
}
fn gen_guard(rng: &mut Rng, k: usize) -> Guard {
  let cmp = rng.pick(&[Cmp::Gt, Cmp::Lt, Cmp::Eq, Cmp::Ge, Cmp::Le, Cmp::Ne]).clone();
  if rng.chance(1, 8) { let c2 = rng.pick(&[Cmp::Gt, Cmp::Lt, Cmp::Eq, Cmp::Ge, Cmp::Le, Cmp::Ne]).clone(); let (i, k1, j, k2) = (rng.usize(k), *rng.pick(&[0u64, 1, 2, 3, 5]), rng.usize(k), *rng.pick(&[0u64, 1, 2, 3, 5])); return if rng.chance(1, 2) { Guard::And(i, cmp, k1, j, c2, k2) } else { Guard::Or(i, cmp, k1, j, c2, k2) }; }
  if k > 1 && rng.chance(1, 3) { let i = rng.usize(k); let mut j = rng.usize(k); if j == i { j = (i + 1) % k; } Guard::CmpF(i, cmp, j) } else { Guard::CmpC(rng.usize(k), cmp, *rng.pick(&[0u64, 1, 2, 3, 5])) }
}
fn gen_target(rng: &mut Rng, k: usize, n_states: usize, done_bias: u64) -> Target {
  if rng.below(10) < done_bias { Target::Done(gen_term(rng, k)) } else { Target::State(rng.usize(n_states), (0..k).map(|_| gen_term(rng, k)).collect()) }
}

pub fn gen_machine(rng: &mut Rng) -> Machine {
  if rng.chance(1, 6) {
    let a = gen_array2(rng);
    return Machine { array2: Some(a), array: None, arity: 1, arms: vec![], start: vec![], ill: IllFormed::None, names: vec![] };
  }
  if rng.chance(1, 6) {
    let cmps = [Cmp::Gt, Cmp::Lt, Cmp::Eq, Cmp::Ge, Cmp::Le, Cmp::Ne];
    let a = ArrayMachine {
      start_acc: *rng.pick(&[0u64, 0, 1, 10]),
      pair_arm: if rng.chance(1, 2) { Some(rng.pick(&cmps).clone()) } else { None },
      single_guard: if rng.chance(2, 3) { Some((rng.pick(&cmps).clone(), *rng.pick(&[0u64, 1, 2, 3, 5]))) } else { None },
      else_add: *rng.pick(&[0u64, 1, 100]),
      no_consume: rng.chance(1, 8),
      done_add: *rng.pick(&[0u64, 0, 1, 7]),
    };
    return Machine { array2: None, array: Some(a), arity: 1, arms: vec![], start: vec![], ill: IllFormed::None, names: vec![] };
  }
  let k = 1 + rng.usize(3);
  let n_states = 1 + rng.usize(4);
  let mut arms = vec![];
  for s in 0..n_states {
    let done_bias = if s + 1 == n_states { 5 } else { 2 };
    if rng.chance(1, 3) { arms.push(Arm::Direct(gen_target(rng, k, n_states, done_bias))); }
    else {
      let ng = 1 + rng.usize(3);
      let mut gs = vec![];
      for _ in 0..ng { gs.push((gen_guard(rng, k), gen_target(rng, k, n_states, done_bias))); }
      // the last branch is a wildcard most of the time so that some guard always holds
      if rng.chance(5, 6) { gs.push((Guard::Wild, gen_target(rng, k, n_states, 6))); }
      arms.push(Arm::Guarded(gs));
    }
  }
  let start = (0..k).map(|i| if rng.chance(3, 4) { Term::Field(i) } else { gen_term(rng, k) }).collect();
  let names: Vec<usize> = if rng.chance(1, 2) { vec![0; n_states] } else { (0..n_states).map(|_| rng.usize(NAME_SETS.len())).collect() };
  let mut m = Machine { array2: None, array: None, arity: k, arms, start, ill: IllFormed::None, names };
  // ill-formed variants
  match rng.below(12) {
    0 => { m.ill = IllFormed::TargetUndeclared; retarget(&mut m, rng, 4); }
    1 => { m.ill = IllFormed::TargetDeclaredWithoutArm; retarget(&mut m, rng, 5); }
    2 => { m.ill = IllFormed::OutputOfOtherKind; }
    // (state 0 is the start state: a machine may not start in a state its specification does not declare either)
    3 => { m.ill = IllFormed::UndeclaredStateWithArm(rng.usize(n_states)); }
    _ => {}
  }
  m
}
/// Point one transition at state `ghost` (index into STATE_NAMES beyond the implemented ones).
fn retarget(m: &mut Machine, rng: &mut Rng, ghost: usize) {
  let k = m.arity;
  let terms: Vec<Term> = (0..k).map(|i| Term::Field(i)).collect();
  let s = rng.usize(m.arms.len());
  match &mut m.arms[s] {
    Arm::Direct(t) => *t = Target::State(ghost, terms),
    Arm::Guarded(gs) => { let i = rng.usize(gs.len()); gs[i].1 = Target::State(ghost, terms); }
  }
}

pub fn plan(seed: u64, k: u64) -> Plan {
  let mut rng = Rng::for_run(seed, WORLD_ID * 16, k);
  let machine = gen_machine(&mut rng);
  let n_inv = 2 + rng.usize(4);
  let mut invocations = vec![];
  for _ in 0..n_inv {
    let sized = machine.array2.as_ref().and_then(|a| a.sized);
    let vals: Vec<u64> = if machine.is_array() { let n = sized.unwrap_or(1 + rng.usize(5)); (0..n).map(|_| *rng.pick(&[0u64, 1, 2, 3, 5, 7])).collect() } else { (0..machine.arity).map(|_| *rng.pick(&[0u64, 0, 1, 2, 3, 4, 5, 7, 10])).collect() };
    let budget = *rng.pick(&[1usize, 2, 3, 5, 8, 13, 30, 100, 1000]);
    let inv = match rng.below(12) {
      0 => { let pos = rng.usize(vals.len()); Invocation::WrongKind(vals, pos, rng.pick(&["f64", "u8", "i64", "u32"]).to_string()) }
      1 => { let mut v = vals.clone(); if !machine.is_array() { if rng.chance(1, 2) || v.len() == 1 { v.push(1); } else { v.pop(); } } Invocation::WrongCount(v) }
      2 | 3 if sized.is_some() => {
        // another length than declared (one more, one less, many more), or a column of the declared length
        let n = sized.unwrap();
        if n >= 2 && rng.chance(1, 3) { Invocation::WrongShape(vals, true) } else {
          let m = match rng.below(3) { 0 => n + 1, 1 if n >= 2 => n - 1, _ => n + 2 + rng.usize(3) };
          Invocation::WrongShape((0..m).map(|_| *rng.pick(&[0u64, 1, 2, 3, 5, 7])).collect(), false)
        }
      }
      _ => Invocation::Ok(vals),
    };
    invocations.push((inv, budget));
  }
  let hash_seed = rng.next();
  let styles: Vec<u8> = (0..invocations.len()).map(|_| match rng.below(6) { 0 => 1, 1 => 2, _ => 0 }).collect();
  Plan { machine, invocations, hash_seed, styles }
}

// -------------------------------------------------------------------------------------------------
// trace parsing

/// "@1a2b :A(@3c4d) u64(@5e6f:5) u64(@7081:0)" -> ("A", [5, 0])
pub fn parse_state_summary(s: &str) -> Option<(String, Vec<u64>)> {
  let mut name = None;
  let mut vals = vec![];
  for tok in s.split_whitespace() {
    if tok.starts_with('@') && !tok.contains('(') { continue; }
    if let Some(rest) = tok.strip_prefix("u64(") {
      // u64(@addr:VALUE)
      let inner = rest.trim_end_matches(')');
      let v = inner.rsplit(':').next()?.parse::<u64>().ok()?;
      vals.push(v);
    } else if name.is_none() {
      let n = tok.split('(').next()?.trim_start_matches(':').to_string();
      name = Some(n);
    }
  }
  name.map(|n| (n, vals))
}

#[derive(Clone, Debug, Serialize, Deserialize)]
pub struct Violation { pub class: String, pub signature: String, pub summary: String }

pub struct RunOut { pub digest: u64, pub nontrivial: bool, pub counters: BTreeMap<String, u64>, pub violation: Option<Violation>, pub log: Vec<String> }

fn bump(m: &mut BTreeMap<String, u64>, k: &str, n: u64) { *m.entry(k.to_string()).or_insert(0) += n; }

/// Wall-clock bound for one run (a run takes milliseconds; its machines are bounded by
/// `max_steps`). A run that exceeds it is reported as a machine that was not stopped; the verdict
/// is believed only if the replay in a fresh process exceeds the bound again (see check.rs).
pub const HANG_DEADLINE_S: u64 = 8;

pub fn execute(pl: &Plan) -> RunOut {
  let pl2 = pl.clone();
  let progress: std::sync::Arc<std::sync::Mutex<(String, Vec<String>)>> = Default::default();
  let p2 = progress.clone();
  let r = crate::hashseed::on_node_thread_deadline(pl.hash_seed, HANG_DEADLINE_S, move || execute_on_thread(&pl2, &p2));
  match r {
    Ok(o) => o,
    Err(Some(msg)) => RunOut { digest: 0, nontrivial: false, counters: BTreeMap::new(), violation: Some(Violation { class: "host-aborted".into(), signature: "host-aborted|thread".into(), summary: format!("node thread died: {}", msg) }), log: vec![] },
    Err(None) => {
      // the node thread is still inside interpret(): this process must not serve further runs
      crate::supervisor::EXIT_AFTER_RUN.store(true, std::sync::atomic::Ordering::SeqCst);
      let (doing, mut log) = progress.lock().map(|g| g.clone()).unwrap_or_default();
      log.push(format!("{} => no answer after {} s of wall clock", doing, HANG_DEADLINE_S));
      let mut counters = BTreeMap::new();
      bump(&mut counters, "reach:run-exceeded-wall-clock-bound", 1);
      RunOut { digest: 0, nontrivial: false, counters, violation: Some(Violation { class: "machine-not-stopped".into(), signature: "machine-not-stopped|hang".into(), summary: format!("`{}` did not return within {} s (neither a value nor the transition-limit error)", doing, HANG_DEADLINE_S) }), log }
    }
  }
}

fn execute_on_thread(pl: &Plan, progress: &std::sync::Arc<std::sync::Mutex<(String, Vec<String>)>>) -> RunOut {
  let mut counters = BTreeMap::new();
  let mut log = vec![];
  let mut dig = Digest::new();
  let mut node = Node::new();
  node.intrp.trace = true;
  let m = &pl.machine;
  let decl = m.render();
  dig.str(&decl);
  let mut violation: Option<Violation> = None;
  let mut nontrivial = false;
  let vio = |class: &str, detail: &str, summary: String| Violation { class: class.to_string(), signature: format!("{}|{}", class, detail), summary };
  let mut declared = false;
  for (idx, (inv, budget)) in pl.invocations.iter().enumerate() {
    let mut inv_text = render_invocation_for(m, inv);
    match (pl.styles.get(idx).copied().unwrap_or(0), inv) {
      (1, _) => { inv_text = format!("r{} := {}", idx, inv_text); }
      (2, Invocation::Ok(vals)) if !m.is_array() => {
        let names: Vec<String> = (0..vals.len()).map(|j| format!("arg{}n{}", idx, j)).collect();
        let defs: Vec<String> = names.iter().zip(vals.iter()).map(|(n, v)| format!("{} := {}u64", n, v)).collect();
        inv_text = format!("{}\n#M({})", defs.join("\n"), names.join(", "));
      }
      _ => {}
    }
    let text = if !declared { format!("{}\n{}", decl, inv_text) } else { inv_text.clone() };
    node.intrp.max_steps = *budget;
    node.intrp.clear_trace_events();
    let tree = match parse_cached(&text) {
      Ok(t) if code_items(&t).map(|c| c.len() >= 1).unwrap_or(false) => t,
      _ => { bump(&mut counters, "reach:not_code", 1); log.push(format!("#{} [dropped: the machine text did not parse as code]\n{}", idx, text)); break; }
    };
    if let Ok(mut g) = progress.lock() { g.0 = format!("#{} {} max_steps={}", idx, inv_text, budget); g.1 = log.clone(); }
    let outcome = node.interpret(&tree);
    declared = true;
    bump(&mut counters, "steps", 1);
    dig.str(&inv_text); dig.u64(*budget as u64); dig.str(&outcome.digest_text());
    let events = node.intrp.trace_events();
    let mut seen_states: Vec<(String, Vec<u64>)> = vec![];
    for e in &events {
      if e.channel.as_deref() == Some("fsm") && e.label.as_deref().map(|l| l.trim()) == Some("step") {
        if std::env::var("MECHSIM_DEBUG").is_ok() { eprintln!("RAW {:?}", e.message); }
        if let Some((_, st)) = e.message.split_once("state=") { if let Some(p) = parse_state_summary(st) { seen_states.push(p); } }
      }
    }
    bump(&mut counters, "fsm-transitions", seen_states.len() as u64);
    log.push(format!("#{} {} max_steps={} => {} ; trace states: {}", idx, inv_text, budget, outcome.show(), seen_states.iter().map(|(n, v)| format!("{}{:?}", n, v)).collect::<Vec<_>>().join(" ")));

    // ---- expectations
    let mut found: Option<Violation> = None;
    match inv {
      Invocation::WrongKind(..) | Invocation::WrongCount(_) | Invocation::WrongShape(..) => {
        bump(&mut counters, match inv { Invocation::WrongKind(..) => "fault:wrong-argument-kind", Invocation::WrongShape(..) => "fault:wrong-argument-shape", _ => "fault:wrong-argument-count" }, 1);
        if outcome.is_ok() { found = Some(vio("ill-formed-invocation-accepted", match inv { Invocation::WrongKind(..) => "argument-kind", Invocation::WrongShape(..) => "argument-shape", _ => "argument-count" }, format!("`{}` was accepted: {}", inv_text, outcome.show()))); }
        if let Outcome::Escaped { msg, .. } = &outcome { found = Some(vio("host-aborted", "panic-escaped", format!("panic escaped interpret(): {}", msg))); }
      }
      Invocation::Ok(vals) => {
        if m.ill == IllFormed::OutputOfOtherKind {
          // judged only where the declaration determines that the output arm is reached within the budget
          let rr = reference(m, vals);
          if let RefEnd::Value(_) = &rr.end {
            if rr.visited.len() + 1 <= *budget {
              bump(&mut counters, "fault:output-of-other-kind", 1);
              if outcome.is_ok() { found = Some(vio("ill-formed-machine-accepted", "output-of-other-kind", format!("`{}` on a machine declared `=> <u64>` whose output arm yields another kind returned {}", inv_text, outcome.show()))); }
            }
          }
          if let Outcome::Escaped { msg, .. } = &outcome { found = Some(vio("host-aborted", "panic-escaped", format!("panic escaped interpret(): {}", msg))); }
        } else if let IllFormed::UndeclaredStateWithArm(ghost) = m.ill {
          // judged only where the declaration determines that a transition into the undeclared state is
          // taken within the budget (a static rejection of the whole machine is accepted as well)
          let mut well = m.clone(); well.ill = IllFormed::None;
          let rr = reference(&well, vals);
          if let Some(pos) = rr.visited.iter().position(|(s, _)| *s == ghost) {
            if pos + 1 <= *budget {
              bump(&mut counters, "fault:transition-to-state-the-specification-does-not-declare", 1);
              if outcome.is_ok() { found = Some(vio("ill-formed-machine-accepted", "state-with-arm-not-declared", format!("`{}` went through :{} which the specification does not declare and returned {}", inv_text, STATE_NAMES[ghost], outcome.show()))); }
            }
          }
          if let Outcome::Escaped { msg, .. } = &outcome { found = Some(vio("host-aborted", "panic-escaped", format!("panic escaped interpret(): {}", msg))); }
        } else if m.ill != IllFormed::None {
          bump(&mut counters, if m.ill == IllFormed::TargetUndeclared { "fault:transition-to-undeclared-state" } else { "fault:declared-state-without-arm" }, 1);
          if outcome.is_ok() { found = Some(vio("ill-formed-machine-accepted", if m.ill == IllFormed::TargetUndeclared { "undeclared-target" } else { "declared-state-without-arm" }, format!("machine with {:?} was accepted: {}", m.ill, outcome.show()))); }
        } else {
          let rr = reference(m, vals);
          let t = rr.visited.len(); // iterations needed before the output arm's own iteration
          let want_states: Vec<(String, Vec<u64>)> = rr.visited.iter().map(|(s, p)| (if m.is_array() { "Scan".to_string() } else { STATE_NAMES[*s].to_string() }, p.clone())).collect();
          if m.array.is_some() { bump(&mut counters, "reach:array-pattern-machine", 1); }
          if let Some(a2) = &m.array2 {
            bump(&mut counters, "reach:array-pattern-machine-general", 1);
            if a2.arms.iter().any(|a| matches!(&a.pat, APat::Spread(p, q, _) if !p.is_empty() && !q.is_empty())) { bump(&mut counters, "reach:array-spread-with-prefix-and-suffix", 1); }
          }
          let limit_err = matches!(&outcome, Outcome::Err { name, .. } if name == "FsmExceededTransitionLimit");
          match &rr.end {
            RefEnd::Value(v) => {
              bump(&mut counters, "reach:terminating", 1);
              // the output arm consumes one more iteration: Done state is entered after t transitions, then emits
              let needed = t + 1;
              if needed <= *budget {
                nontrivial = true;
                match &outcome {
                  Outcome::Ok(SV::Int(NK::U64, x)) if *x as u64 == *v => {
                    // (2) the visited states are exactly the ones the declaration determines (plus the terminal state)
                    let mut got = seen_states.clone();
                    if got.last().map(|(n, _)| n == "Done").unwrap_or(false) { got.pop(); }
                    if got != want_states { found = Some(vio("visited-states-differ", "terminating", format!("expected {:?} ; trace shows {:?}", want_states, got))); }
                  }
                  o => found = Some(vio("wrong-result", "terminating", format!("`{}` expected {}u64 after states {:?} ; observed {}", inv_text, v, want_states, o.show()))),
                }
              } else {
                bump(&mut counters, "reach:terminates-beyond-budget", 1);
                match &outcome {
                  Outcome::Ok(SV::Int(NK::U64, x)) if *x as u64 == *v => {}
                  _ if limit_err => { bump(&mut counters, "fault:transition-limit-fired", 1); }
                  o => found = Some(vio("wrong-result", "beyond-budget", format!("`{}` (terminates after {} steps, budget {}) expected the limit error or {}u64 ; observed {}", inv_text, needed, budget, v, o.show()))),
                }
              }
            }
            RefEnd::Loops | RefEnd::TooLong => {
              bump(&mut counters, "reach:non-terminating", 1);
              nontrivial = true;
              if limit_err { bump(&mut counters, "fault:transition-limit-fired", 1); }
              else { found = Some(vio("non-terminating-machine-not-stopped", if outcome.is_ok() { "returned-a-value" } else { "other-error" }, format!("`{}` never terminates (budget {}) ; observed {}", inv_text, budget, outcome.show()))); }
              // the states it did visit must be a prefix of the declared run
              if found.is_none() && matches!(rr.end, RefEnd::Loops) {
                let cyc = &want_states;
                for (i, g) in seen_states.iter().enumerate().take(cyc.len()) { if *g != cyc[i] { found = Some(vio("visited-states-differ", "non-terminating", format!("at step {} expected {:?} ; trace shows {:?}", i, cyc[i], g))); break; } }
              }
            }
            RefEnd::Overflow => {
              bump(&mut counters, "reach:arithmetic-overflow-in-transition", 1);
              // must be an error (the arithmetic error, or the limit if the budget ends first); never a value
              if outcome.is_ok() && t < *budget { found = Some(vio("overflow-not-reported", "transition", format!("`{}` overflows u64 arithmetic after states {:?} ; observed {}", inv_text, want_states, outcome.show()))); }
              bump(&mut counters, "fault:overflow-inside-transition", 1);
            }
            RefEnd::NoGuardHolds => { bump(&mut counters, "reach:no-guard-holds(unspecified)", 1); }
          }
          if let Outcome::Escaped { msg, .. } = &outcome { found = Some(vio("host-aborted", "panic-escaped", format!("panic escaped interpret(): {}", msg))); }
        }
      }
    }
    if let Some(v) = found { log.push(format!("   !! {} :: {}", v.signature, v.summary)); violation = Some(v); break; }
    if !outcome.is_ok() { bump(&mut counters, "reach:invocation-after-a-failed-one-follows", 1); }
  }
  RunOut { digest: dig.finish(), nontrivial, counters, violation, log }
}

pub fn worker_run(seed: u64, k: u64) -> J {
  let pl = plan(seed, k);
  let out = execute(&pl);
  let violations: Vec<J> = out.violation.iter().map(|v| {
    if v.signature == "machine-not-stopped|hang" {
      // no re-execution here (every attempt leaves a spinning thread behind): keep the invocations
      // up to the one that did not return; the fresh-process replay confirms it
      let n_done = out.log.len(); // one line per answered invocation + the final "no answer" line
      let mut fpl = pl.clone(); fpl.invocations.truncate(n_done.max(1));
      return json!({"properties": ["C17"], "class": v.class, "signature": v.signature, "summary": format!("run {}: {}", k, v.summary),
        "replay": {"world": "W5", "seed": seed, "run": k, "plan": fpl, "machine_text": fpl.machine.render(), "invocations": fpl.invocations.iter().map(|(i, b)| format!("{} with max_steps={}", render_invocation_for(&fpl.machine, i), b)).collect::<Vec<_>>(), "event_log": out.log, "violation": v, "faults": fpl.invocations.iter().map(|(i, b)| format!("{:?} budget {}", i, b)).collect::<Vec<_>>()}});
    }
    let min = minimise(&pl, &v.signature);
    let o2 = execute(&min);
    let (fpl, fo) = if o2.violation.as_ref().map(|x| x.signature == v.signature).unwrap_or(false) { (min, o2) } else { (pl.clone(), execute(&pl)) };
    let vv = fo.violation.clone().unwrap_or(v.clone());
    json!({"properties": ["C17"], "class": v.class, "signature": v.signature, "summary": format!("run {}: {}", k, vv.summary),
      "replay": {"world": "W5", "seed": seed, "run": k, "plan": fpl, "machine_text": fpl.machine.render(), "invocations": fpl.invocations.iter().map(|(i, b)| format!("{} with max_steps={}", render_invocation_for(&fpl.machine, i), b)).collect::<Vec<_>>(), "event_log": fo.log, "violation": vv, "faults": fpl.invocations.iter().map(|(i, b)| format!("{:?} budget {}", i, b)).collect::<Vec<_>>()}})
  }).collect();
  let sample = if k % 1499 == 7 || k == 0 { json!({"run": k, "machine": pl.machine.render(), "event_log": out.log}) } else { J::Null };
  json!({"digest": out.digest, "nontrivial": out.nontrivial, "state_digests": [], "counters": out.counters, "sets": {}, "violations": violations, "sample": sample})
}

fn minimise(pl: &Plan, sig: &str) -> Plan {
  let same = |c: &Plan| execute(c).violation.map(|v| v.signature == sig).unwrap_or(false);
  let mut cur = pl.clone();
  // fewer invocations
  let mut i = 0;
  while cur.invocations.len() > 1 && i < cur.invocations.len() {
    let mut c = cur.clone(); c.invocations.remove(i);
    if same(&c) { cur = c; } else { i += 1; }
  }
  // general array family: fewer arms, fewer branches
  if cur.machine.array2.is_some() {
    let mut i = 0;
    while cur.machine.array2.as_ref().map(|a| a.arms.len() > 1 && i < a.arms.len()).unwrap_or(false) {
      let mut c = cur.clone(); c.machine.array2.as_mut().unwrap().arms.remove(i);
      if same(&c) { cur = c; } else { i += 1; }
    }
    let n_arms = cur.machine.array2.as_ref().unwrap().arms.len();
    for ai in 0..n_arms {
      let mut g = 0;
      while cur.machine.array2.as_ref().unwrap().arms[ai].branches.len() > 1 && g < cur.machine.array2.as_ref().unwrap().arms[ai].branches.len() {
        let mut c = cur.clone(); c.machine.array2.as_mut().unwrap().arms[ai].branches.remove(g);
        if same(&c) { cur = c; } else { g += 1; }
      }
    }
  }
  // fewer guards per arm
  for s in 0..cur.machine.arms.len() {
    loop {
      let n = match &cur.machine.arms[s] { Arm::Guarded(gs) => gs.len(), _ => 0 };
      let mut reduced = false;
      for g in 0..n {
        let mut c = cur.clone();
        if let Arm::Guarded(gs) = &mut c.machine.arms[s] { if gs.len() > 1 { gs.remove(g); } else { continue; } }
        if same(&c) { cur = c; reduced = true; break; }
      }
      if !reduced { break; }
    }
  }
  cur
}

pub fn replay(j: &J) -> Option<String> {
  let pl: Plan = serde_json::from_value(j["plan"].clone()).ok()?;
  println!("{}", pl.machine.render());
  let out = execute(&pl);
  for l in &out.log { println!("{}", l); }
  out.violation.map(|v| v.signature)
}
