//! Seam for `std::collections::hash_map::RandomState`.
//!
//! std seeds every thread's `RandomState` keys once, by asking the OS for 16 random bytes. On Linux
//! that request goes through the C symbol `getrandom`. The harness binary defines that symbol
//! itself (the definition in the executable wins over libc's), and answers from a per-thread seed
//! cell. A simulated node always runs on a fresh OS thread whose seed was set first, so one u64
//! fixes the iteration order of every HashMap/HashSet/IndexMap(RandomState) the node ever creates.
//!
//! Threads whose seed was never set (the main thread, the supervisor) get a fixed default, so
//! nothing in the harness depends on OS randomness either.

use std::cell::Cell;

thread_local! {
  // const-initialised: reading it never allocates and never recurses into RandomState.
  static HASH_SEED: Cell<u64> = const { Cell::new(0x5EED_0000_0000_0001) };
  static HASH_CALLS: Cell<u64> = const { Cell::new(0) };
}

#[no_mangle]
pub unsafe extern "C" fn getrandom(buf: *mut libc::c_void, buflen: libc::size_t, _flags: libc::c_uint) -> libc::ssize_t {
  let seed = HASH_SEED.with(|s| s.get());
  let calls = HASH_CALLS.with(|c| {
    let v = c.get();
    c.set(v + 1);
    v
  });
  let mut x = seed ^ calls.wrapping_mul(0xA076_1D64_78BD_642F);
  let out = std::slice::from_raw_parts_mut(buf as *mut u8, buflen);
  let mut i = 0;
  while i < out.len() {
    let r = crate::rng::splitmix64(&mut x).to_le_bytes();
    let n = std::cmp::min(8, out.len() - i);
    out[i..i + n].copy_from_slice(&r[..n]);
    i += n;
  }
  buflen as libc::ssize_t
}

pub fn set_thread_hash_seed(seed: u64) {
  HASH_SEED.with(|s| s.set(seed));
  HASH_CALLS.with(|c| c.set(0));
}

pub fn getrandom_calls_on_this_thread() -> u64 {
  HASH_CALLS.with(|c| c.get())
}

/// Stack size of node threads: fixed and generous, so the host stack is never the reason a run dies.
pub const NODE_STACK: usize = 256 << 20;

/// Run `f` on a fresh thread whose RandomState keys derive from `hash_seed`; returns f's result,
/// or Err(panic message) if `f` panicked.
pub fn on_node_thread<T: Send + 'static>(hash_seed: u64, f: impl FnOnce() -> T + Send + 'static) -> Result<T, String> {
  let h = std::thread::Builder::new()
    .stack_size(NODE_STACK)
    .spawn(move || {
      set_thread_hash_seed(hash_seed);
      f()
    })
    .expect("spawn node thread");
  match h.join() {
    Ok(v) => Ok(v),
    Err(e) => Err(panic_message(&e)),
  }
}

/// Like `on_node_thread`, with a wall-clock deadline: Err(None) if `f` has not returned after
/// `secs` (the thread cannot be reclaimed; the caller must arrange for the process to end soon).
pub fn on_node_thread_deadline<T: Send + 'static>(hash_seed: u64, secs: u64, f: impl FnOnce() -> T + Send + 'static) -> Result<T, Option<String>> {
  let (tx, rx) = std::sync::mpsc::channel();
  std::thread::Builder::new()
    .stack_size(NODE_STACK)
    .spawn(move || {
      set_thread_hash_seed(hash_seed);
      let r = std::panic::catch_unwind(std::panic::AssertUnwindSafe(f));
      tx.send(r.map_err(|e| panic_message(&e))).ok();
    })
    .expect("spawn node thread");
  match rx.recv_timeout(std::time::Duration::from_secs(secs)) {
    Ok(Ok(v)) => Ok(v),
    Ok(Err(m)) => Err(Some(m)),
    Err(_) => Err(None),
  }
}

pub fn panic_message(e: &Box<dyn std::any::Any + Send>) -> String {
  if let Some(s) = e.downcast_ref::<&'static str>() {
    s.to_string()
  } else if let Some(s) = e.downcast_ref::<String>() {
    s.clone()
  } else {
    "non-string panic".to_string()
  }
}

/// Probe used by the self-test: iteration order of a std HashMap created on this thread.
pub fn probe_order() -> Vec<u32> {
  let mut m = std::collections::HashMap::new();
  for i in 0..16u32 {
    m.insert(i, ());
  }
  m.keys().copied().collect()
}
